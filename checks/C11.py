"""C11 - navigation and position lookup: Tree.C11 clauses; every (line, col) of short texts, sampled for long ones."""
from checks import _tree

PROP = 'C11'


def run(tier):
    budget = 90000 if tier == 'thorough' else 18000
    out, res = _tree.run_groups(PROP, ['C11'], tier,
                                {'nav': True, 'anc': True, 'parts': False, 'posq': 400 if tier == 'thorough' else 160,
                                 'code_budget': 0}, budget,
                                note='; position lookups: every (line, col) incl. one beyond each line end and 5 '
                                     'outside the file, both include_prefixes values (sampled above the cap)')
    return out


replay = _tree.replay_tree
