"""C04 - incremental re-parse equals a fresh parse after any edit history.

Generator: spec EditHistory (TLC enumerates every single edit of several base documents over a 12-line sub-pool
and simulates histories of 6 edits over the full 48-line pool incl. undo, BOM and final-newline toggles).
Monitor: spec DiffTrace evaluated by TLC on the replayed histories: the call never fails, the returned module's
code is the new text, its dump equals the dump of a non-incremental parse, its used-names index is not stale;
diagnostic clauses on the diff parser's own copy/parse log.  The final tree of every history is also validated
by the Tree A-spec (C01/C03/C11 clause groups: tiling, true positions, parent links)."""
import random

from harness import diffsim, pipeline
from harness.common import Scratch, VERSIONS, seed
from harness.result import Outcome

PROP = 'C04'
DIAGNOSTIC = ('CopyContiguous', 'CopyProgress', 'CopiedTextIdentical', 'ParsedLinesNeverShrink')


def run(tier):
    out = Outcome(PROP, tier, 'model_checking')
    rng = random.Random(seed())
    scratch = Scratch(PROP)
    try:
        ops1 = ['insert', 'delete', 'replace', 'indent', 'togglenl', 'togglebom', 'block', 'duplicate', 'swap']
        bases = diffsim.BASES if tier == 'thorough' else rng.sample(diffsim.BASES[:6], 2) + diffsim.BASES[6:]
        hs1, r1 = diffsim.generate(scratch.sub('g1'), bases, diffsim.EDIT_LINES_SMALL, ops1, 1)
        out.add('states', r1.distinct)
        out.add('transitions', r1.generated)
        if tier == 'quick' and len(hs1) > 3500:
            hs1 = rng.sample(hs1, 3500)
        hs2, r2 = diffsim.generate(scratch.sub('g2'), diffsim.BASES, list(range(1, len(diffsim.POOL) + 1)),
                                   diffsim.ALL_OPS, 6, simulate=700 if tier == 'quick' else 12000,
                                   seed=rng.randrange(1 << 30))
        out.add('states', r2.distinct)
        out.add('transitions', r2.generated)
        hs3 = []
        if tier == 'thorough':
            hs3, r3 = diffsim.generate(scratch.sub('g3'), diffsim.BASES[:4], diffsim.EDIT_LINES_SMALL[:6],
                                       ['insert', 'delete', 'replace'], 2)
            out.add('states', r3.distinct)
            out.add('transitions', r3.generated)
            if len(hs3) > 60000:
                hs3 = rng.sample(hs3, 60000)
        items = [[i + 1, h, VERSIONS[(i * 7 + seed()) % 9], i + seed()] for i, h in enumerate(hs1 + hs2 + hs3)]
        res = pipeline.validate(items, 'harness.diffsim.rec_diff', {}, scratch.sub('v'), ['DiffTrace'], 'DiffTrace',
                                wrap_extra={})
        out.add('states', res['states'])
        out.add('transitions', res['generated'])
        for rej in res['rejected']:
            r = rej['reject']
            tr = rej['trace'] or {}
            if r[3] in DIAGNOSTIC:
                if len(out.drift) < 5:
                    out.drift.append('diff-parser log event clause %s at step %s of %s' % (r[3], r[4], tr.get('text', '')[:300]))
                continue
            out.violation(r[3], 'DiffTrace.' + r[3], {'step': r[4], 'texts': tr.get('text'), 'version': tr.get('ver')},
                          {'kind': 'edits', 'snaps': tr.get('snaps'), 'version': tr.get('ver'), 'style': tr.get('style')})
        steps = sum(len(h) for h in hs1 + hs2 + hs3)
        out.cov(traces_validated_against_impl=res['accepted'], evaluations=res['n'], update_steps=steps,
                distinct_nontrivial=res['nontrivial'], single_edit_histories=len(hs1), simulated_histories=len(hs2),
                two_edit_histories=len(hs3),
                rule='histories = every single edit (9 operation kinds) of the chosen base documents over a 12-line '
                     'sub-pool (TLC exhaustive; sampled to 3500 in quick) + simulated histories of 6 edits over the full '
                     'pool with undo / BOM / final-newline toggles (+ all two-edit histories in thorough), rendered with '
                     'LF, CRLF or bare CR and 4- or 2-space indentation, all 9 grammar versions in rotation; non-trivial = at '
                     'least one copy event happened')
        for s in res['samples'][:3]:
            out.sample({'id': s.get('id'), 'version': s.get('ver'), 'texts': (s.get('text') or '')[:500]})
        # the final tree of each history, through the Tree A-spec
        titems = []
        for it in rng.sample(items, min(len(items), 1200 if tier == 'quick' else 10000)):
            titems.append([it[0], it[1], it[2], it[3]])
        res2 = pipeline.validate(titems, 'harness.diffsim.rec_final_tree', {}, scratch.sub('t'),
                                 ['TokenStream', 'Tree', 'TreeTrace'], 'TreeTrace',
                                 wrap_extra={'groups': ['C01', 'C03', 'C11']})
        out.add('states', res2['states'])
        out.add('transitions', res2['generated'])
        out.add('traces_validated_against_impl', res2['accepted'])
        for rej in res2['rejected']:
            r = rej['reject']
            tr = rej['trace'] or {}
            out.violation('tree:' + r[3], 'Tree.%s.%s (incrementally parsed tree)' % (r[2], r[3]),
                          {'reject': r, 'text': tr.get('text')}, {'kind': 'edits-tree', 'trace': tr})
        out.cov(final_trees_validated=res2['accepted'])
        out.assumptions += ['Fresh = the real non-incremental parser (a defect common to both parsers is invisible here but '
                            'visible to C01-C07)', 'internal copy/parse events come from the diff parser\'s own LOG.debug '
                            'lines; if their format changes they are simply absent']
    finally:
        scratch.cleanup()
    return out


def replay(path):
    import json
    d = json.load(open(path))['replay']
    tr, module, texts = diffsim.replay_history(1, d['snaps'], d['version'])
    for t, s in zip(texts, tr['steps']):
        print(repr(t))
        print('   ', {k: s[k] for k in ('raised', 'tree', 'fresh', 'code', 'text', 'used', 'fused')}, s['events'])
    return 0
