"""C06 - the parser accepts every sentence of the grammar and returns its derivation.

ParserB in "valid" environment generates exactly the sentences of the start rule, each with its derivation
(the closing events): exhaustively up to k tokens for file_input and eval_input, and by simulation for long
ones.  Each sentence is rendered to text; the real strict parser must accept it, its tree must be exactly the
derivation under the documented conventions, and the recovering parser must return the identical tree with no
error node or leaf.  (Here agreement with the spec IS the verdict: the property is functional.)"""
import random

from checks import _parserb
from harness import parserb, record
from harness.common import Scratch, VERSIONS, seed
from harness.result import Outcome

PROP = 'C06'


def run(tier):
    out = Outcome(PROP, tier, 'model_checking')
    versions = VERSIONS
    rng0 = random.Random(seed())
    deep = VERSIONS if tier == 'thorough' else [rng0.choice(VERSIONS[:5]), _parserb.NEWEST]
    # arc cover (every arc of every DFA reachable from the start rule) for ALL versions; exhaustive + simulated
    # sentences for the versions in `deep`
    behs = _parserb.generate(out, tier, PROP, envs=(), versions=[v for v in VERSIONS if v not in deep],
                             starts=('file_input', 'eval_input'), arc_cover=True)
    behs += _parserb.generate(out, tier, PROP, envs=('valid',), versions=deep,
                             num=120 if tier == 'quick' else 3000,
                             exhaustive_valid=3 if tier == 'quick' else 5,
                             starts=('file_input', 'eval_input'), arc_cover=True)
    rls = {}
    osamples = []
    n_checked = n_unfaithful = 0
    arcs_seen = set()
    seen_text = set()
    for b in behs:
        if b['status'] != 'done' or b['err']:
            continue
        v = b['version']
        if v not in rls:
            sc = Scratch('rl')
            rls[v] = parserb.Relabel(parserb.export(sc.path, v), v)
            sc.cleanup()
        rl = rls[v]
        for variant in range(2):
            labels = b['labels']
            text = parserb.render(labels, rng=random.Random(hash((b['text'], variant)) & 0xffff), vary=bool(variant),
                                  newline='\n' if not variant else '\r\n')
            if text is None:
                continue
            # for eval_input the rendered text must not end the expression with a newline-less mismatch: same tokens
            try:
                ok = [rl.tid[rl.label(t.type.name, t.string)] for t in _tokens(text, v)] == \
                     [rl.tid[tuple(l)] for l in labels]
            except Exception:
                ok = False
            if not ok:
                n_unfaithful += 1
                continue
            key = (text, v, b['start'])
            if key in seen_text:
                continue
            seen_text.add(key)
            n_checked += 1
            want = parserb.norm_events(b['out'])
            g = record.parso.load_grammar(version=v)
            kw = {} if b['start'] == 'file_input' else {'start_symbol': b['start']}
            # strict parse accepts and returns the derivation
            try:
                m = g.parse(text, error_recovery=False, **kw)
                got = parserb.real_events(m, rl)
                strict_dump = m.dump(indent=None)
            except Exception as e:  # noqa
                got = ['raised', record.exc_key(e)]
                strict_dump = None
            if got != want:
                first = next((i for i, (a, c) in enumerate(zip(got, want)) if a != c), min(len(got), len(want))) \
                    if isinstance(got, list) and got and got[0] != 'raised' else -1
                out.violation('DerivationReturned|%s' % (got[1] if got and got[0] == 'raised' else
                                                          (want[first][0] if 0 <= first < len(want) else 'length')),
                              'C06.StrictReturnsDerivation',
                              {'text': text, 'version': v, 'start': b['start'],
                               'real': got[first:first + 1] if first >= 0 else got, 'spec': want[first:first + 1]},
                              {'kind': 'sentence', 'text': text, 'version': v, 'start': b['start']})
                continue
            if len(osamples) < (400 if tier == 'quick' else 4000) and (n_checked % 7 == 0 or '\n ' in text):
                osamples.append([text, v, b['start'], strict_dump])
            if b['start'] == 'file_input':
                try:
                    m2 = g.parse(text)
                    same = m2.dump(indent=None) == strict_dump
                    errs = any(n.type in ('error_node', 'error_leaf') for n in record.walk(m2))
                except Exception as e:  # noqa
                    same, errs = False, True
                if not same or errs:
                    out.violation('RecoveringIdentical', 'C06.RecoveringIdentical',
                                  {'text': text, 'version': v},
                                  {'kind': 'sentence', 'text': text, 'version': v, 'start': b['start']})
            for ev in want:
                arcs_seen.add((v, ev[0], len(ev[1])))
            if n_checked % 400 == 1:
                out.sample({'text': text, 'version': v, 'start': b['start'], 'derivation': want[:4]})
    optimised(out, osamples)
    n_pumped = pumped(out, tier, rng0)
    out.cov(pumped_sentences=n_pumped)
    out.cov(traces_validated_against_impl=n_checked, evaluations=n_checked + n_unfaithful,
            distinct_nontrivial=len(seen_text), unrenderable_or_unfaithful=n_unfaithful,
            distinct_node_shapes=len(arcs_seen), exhaustive=False,
            rule='sentences = an arc cover (one shortest sentence through every arc of every DFA reachable from the start '
                 'rule, all 9 versions, derivations by ParserB in script mode) + all behaviours of ParserB in "valid" mode up to 4 (quick) / 5 (thorough) tokens for '
                 'file_input and eval_input (exhaustive, with derivations) + simulated long sentences; rendered with '
                 'two spellings/newline styles; a rendering the real tokenizer does not map back to the intended '
                 'labels is dropped and counted; distinct by (text, version, start symbol)')
    out.assumptions += ['token classes: one representative per class of tokens with identical plans in every state',
                        'renderer (self-checking: re-tokenised and compared)']
    return out


# right-recursive rules of every shipped grammar (not_test: 'not' not_test; factor: ('+'|'-'|'~') factor;
# test: or_test 'if' or_test 'else' test; lambdef: 'lambda' ':' test; power: atom_expr '**' factor): pumping the
# recursive alternative n times is a sentence for every n.  The derivation is n nested nodes that the LAST token
# closes all at once - the parser's work per token is unbounded, its own stack is explicit, and nothing in the
# property bounds n.
PUMPS = {'not': ('not ', 'x', ''), 'minus': ('- ', 'x', ''), 'invert': ('~', 'x', ''), 'lambda': ('lambda: ', 'x', ''),
         'ternary': ('a if b else ', 'x', ''), 'power': ('x ** ', 'y', '')}
CONTEXTS = {'stmt': ('', '\n', 'file_input'), 'assign': ('r = ', '\n', 'file_input'), 'arg': ('f(', ')\n', 'file_input'),
            'suite': ('def g():\n    return ', '\n', 'file_input'), 'eval': ('', '', 'eval_input')}


OCHILD = r"""
import sys, json
sys.path.insert(0, %r)
import parso
res = []
for text, v, start, _ in json.load(sys.stdin):
    g = parso.load_grammar(version=v)
    kw = {} if start == 'file_input' else {'start_symbol': start}
    try:
        res.append(g.parse(text, error_recovery=False, **kw).dump(indent=None))
    except Exception as e:
        res.append('raised ' + type(e).__name__)
print(json.dumps([sys.flags.optimize, res]))
"""


def optimised(out, samples):
    """the derivation must not depend on how the interpreter was started: the same sentences are parsed by a child
    interpreter running with -O (assert statements stripped) and must give the dumps already checked in this process"""
    import json
    import subprocess
    from harness.common import REPO
    if not samples:
        return
    p = subprocess.run(['/venv/bin/python', '-O', '-c', OCHILD % REPO], input=json.dumps(samples).encode(),
                       stdout=subprocess.PIPE, stderr=subprocess.PIPE, timeout=900)
    if p.returncode:
        raise RuntimeError('optimised child failed: ' + p.stderr.decode()[-600:])
    flag, res = json.loads(p.stdout.decode())
    assert flag >= 1, flag
    bad = [(s_, r) for s_, r in zip(samples, res) if r != s_[3]]
    if bad:
        s_, r = bad[0]
        out.violation('DerivationReturned|under -O', 'C06.StrictReturnsDerivation',
                      {'text': s_[0], 'version': s_[1], 'start': s_[2], 'differing': len(bad), 'of': len(samples),
                       'note': 'tree returned by an interpreter started with -O differs from the derivation'},
                      {'kind': 'sentence', 'text': s_[0], 'version': s_[1], 'start': s_[2]})
    out.cov(sentences_reparsed_under_O=len(samples))


def pumped(out, tier, rng):
    """deep right-recursive sentences: the strict and the recovering parser return, the leaves tile the text and are
    the same in both (checked without recursion over the tree)"""
    import sys
    n = 0
    depths = [3, 60, sys.getrecursionlimit() + 200] + ([3 * sys.getrecursionlimit()] if tier == 'thorough' else [])
    versions = VERSIONS if tier == 'thorough' else [rng.choice(VERSIONS), _parserb.NEWEST]
    for v in versions:
        g = record.parso.load_grammar(version=v)
        for pname, (rep, base, tail) in PUMPS.items():
            for cname, (pre, post, start) in CONTEXTS.items():
                for d in depths:
                    text = pre + rep * d + base + tail + post
                    kw = {} if start == 'file_input' else {'start_symbol': start}
                    n += 1

                    def leaves(m):
                        out_, leaf = [], m.get_first_leaf()
                        while leaf is not None:
                            out_.append((leaf.type, leaf.prefix + leaf.value))
                            leaf = leaf.get_next_leaf()
                        return out_
                    try:
                        m = g.parse(text, error_recovery=False, **kw)
                        ls = leaves(m)
                        problem = None
                        if m.type != start:
                            problem = 'root is %s' % m.type
                        elif ''.join(x[1] for x in ls) != text:
                            problem = 'leaves do not tile the text'
                        elif any(t in ('error_leaf',) for t, _ in ls):
                            problem = 'error leaf in a strict tree'
                        elif start == 'file_input' and leaves(g.parse(text)) != ls:
                            problem = 'recovering parse differs'
                    except BaseException as e:  # noqa
                        problem = 'raised ' + record.exc_key(e)
                    if problem:
                        out.violation('DerivationReturned|pumped|%s' % problem.split('@')[0][:60], 'C06.StrictReturnsDerivation',
                                      {'family': pname, 'context': cname, 'depth': d, 'version': v, 'problem': problem,
                                       'text': text[:120]},
                                      {'kind': 'sentence', 'text': text, 'version': v, 'start': start})
    return n


def _tokens(text, v):
    from parso.python.tokenize import tokenize
    from parso.utils import parse_version_string
    return list(tokenize(text, version_info=parse_version_string(v)))


def replay(path):
    import json
    d = json.load(open(path))['replay']
    g = record.parso.load_grammar(version=d['version'])
    kw = {} if d['start'] == 'file_input' else {'start_symbol': d['start']}
    print(repr(d['text']))
    try:
        print(g.parse(d['text'], error_recovery=False, **kw).dump())
    except Exception as e:  # noqa
        print('raised', repr(e))
    return 0
