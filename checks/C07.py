"""C07 - strict and recovering parsers agree on what is a syntax error.

Design: ParserB shares every operator between the two modes; strict mode differs only by StrictRaise at the
point where the recovering mode starts real recovery (after the shared missing-newline tolerance); TLC checks
FilterInert (the recovery-only DEDENT filter is inert before the first error) and StrictNeverRecovers over all
token streams up to the bound, in both modes.
Code: on every text both real parsers are run; Tree.C07 (evaluated by TLC) requires: strict raises iff the
recovered tree has an error node/leaf; otherwise identical trees; the strict error leaf is the first error the
recovering parser marked (first in leaf order among error leaves and leaves following error nodes)."""
from checks import _parserb, _tree

PROP = 'C07'


def run(tier):
    holder = {}

    def beh_items(rng):
        behs = _parserb.generate(holder['out'], tier, PROP, envs=('broken', 'valid'),
                                 num=160 if tier == 'quick' else 1500)
        holder['behs'] = behs
        for b in behs:
            if b['text'] is not None:
                yield b['text'], b['version'], 'parserb:' + b['env']

    from harness.result import Outcome
    holder['out'] = Outcome(PROP, tier, 'model_checking')   # collects generator statistics
    out, res = _tree.run_groups(PROP, ['C07'], tier,
                                {'nav': False, 'parts': False, 'posq': 0, 'code_budget': 0, 'modes': True},
                                90000 if tier == 'thorough' else 15000, extra_items=beh_items,
                                note=' + renderings of ParserB behaviours (sentences and sentences with 2 errors)')
    out.add('states', holder['out'].coverage.get('states', 0))
    out.add('transitions', holder['out'].coverage.get('transitions', 0))
    out.drift += holder['out'].drift
    # strict-mode agreement of the B-spec with the real strict parser (drift only)
    agree = dis = 0
    for b in holder.get('behs', []):
        if not b['faithful']:
            continue
        try:
            from harness import record
            record.parse(b['text'], b['version'], error_recovery=False)
            raised = False
        except Exception:
            raised = True
        if raised == bool(b['err']):
            agree += 1
        else:
            dis += 1
            if dis <= 3:
                out.drift.append('ParserB predicts errored=%s but strict parse %s on %r (%s)' % (
                    b['err'], 'raised' if raised else 'returned', b['text'], b['version']))
    out.cov(parserb_strict_agree=agree, parserb_strict_disagree=dis)
    _parserb.design_part(out, tier, PROP)
    return out


replay = _tree.replay_tree
