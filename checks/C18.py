"""C18 - parsing is a pure function of its arguments: isolated, reentrant, thread-safe.

Design: spec Threads - all interleavings of two threads' accesses to the shared memo tables and their private
steps with at most 3 preemptions; TLC checks the publication claims and prints every complete schedule.
Code: every schedule is imposed on real threads (harness/sched.py: one runnable thread at a time, preemption at
the functions that correspond to the spec's actions); every call's result digest is compared with the same call
in a fresh interpreter, and a structural fingerprint of all shared state is taken before and after; TLC evaluates
ThreadTrace on the recorded runs.  Plus sequential first-use orders of three grammar versions."""
import hashlib
import itertools
import json
import os
import random
import subprocess
import sys

from harness import sched, tlc
from harness.common import REPO, Scratch, VERSIONS, seed
from harness.result import Outcome

PROP = 'C18'
TEXTS = [
    'def f(a, b=1):\n    return a + b\nclass C:\n    x = [1, 2,\n  3]\nfor i in y: pass\nw = (n:=10) + d[a:=b]\n',
    'if x:\n  y = (1,\n def g(): $\n    return )\nelse\n  z\nimport os, sys\nlambda: (yield)\n',
    'try:\n    f"{a!r:>{w}}"\nexcept E as e:\n    raise\nwith a as b, c as d:\n    del x\nasync def h():\n    await q\n',
    'x = 1;y = 2\n\n\n\nclass D(B):\n\tdef m(self): return self\n@dec\ndef k(): pass\nprint((1,\n2)\n',
]


def digest(s):
    return hashlib.sha1(s.encode('utf-8', 'replace')).hexdigest()[:16]


def program(version, text, kinds):
    import parso
    out = []
    g = parso.load_grammar(version=version)
    m = g.parse(text)
    out.append(['parse|%s|%s' % (version, digest(text)), digest(m.dump(indent=None))])
    if 'errors' in kinds:
        iss = [(i.code, i.message, i.start_pos, i.end_pos) for i in g.iter_errors(m)]
        out.append(['errors|%s|%s' % (version, digest(text)), digest(repr(iss))])
    if 'errors' in kinds:
        # a strict parse from the other start symbol through the same shared grammar object
        expr = 'a + b, (c if d else e)\n'
        try:
            e = g.parse(expr, error_recovery=False, start_symbol='eval_input')
            out.append(['eval|%s|%s' % (version, digest(text)), digest(e.dump(indent=None))])
        except Exception as ex:  # noqa
            out.append(['eval|%s|%s' % (version, digest(text)), digest('raised:' + type(ex).__name__)])
    if 'errors' in kinds:
        # strict parses from other start symbols (on the pinned tree they raise: the outcome is part of the result,
        # and whatever they do must stay inside the call)
        res = []
        for sym, src in (('expr', '1+2'), ('stmt', 'x = 1\n'), ('atom', '(a)')):
            try:
                res.append(g.parse(src, error_recovery=False, start_symbol=sym).dump(indent=None))
            except Exception as ex:  # noqa
                res.append('raised:' + type(ex).__name__)
        out.append(['starts|%s|%s' % (version, digest(text)), digest(repr(res))])
    if 'tokens' in kinds:
        from parso.python.tokenize import tokenize
        from parso.utils import parse_version_string
        toks = [(t.type.name, t.string, t.start_pos, t.prefix) for t in
                tokenize(text, version_info=parse_version_string(version))]
        out.append(['tokens|%s|%s' % (version, digest(text)), digest(repr(toks))])
    return out


ORACLE = r'''
import sys, json
sys.path.insert(0, %r)
sys.path.insert(0, %r)
from checks.C18 import program
calls = json.load(sys.stdin)
out = {}
for version, text in calls:
    try:
        for key, d in program(version, text, ('errors', 'tokens')):
            out[key] = d
    except Exception as e:      # the reference run records a failing call; the comparison then shows it
        out['failed|' + version + '|' + text[:20]] = type(e).__name__
print(json.dumps(out))
'''


def safe_program(v, x, kinds, errors):
    """a call made by the harness itself (warm-up, sequential orders): a failure is recorded, never propagated"""
    try:
        return program(v, x, kinds)
    except Exception as e:  # noqa
        from harness import record
        errors.append('%s|%s' % (v, record.exc_key(e)))
        return []


def oracle(calls):
    """digests of the calls in a fresh interpreter"""
    from harness.common import VERIF
    p = subprocess.run(['/venv/bin/python', '-c', ORACLE % (REPO, VERIF)], input=json.dumps(calls).encode(),
                       stdout=subprocess.PIPE, stderr=subprocess.PIPE, timeout=300,
                       env=dict(os.environ, PYTHONHASHSEED='0'))
    if p.returncode:
        raise RuntimeError('oracle interpreter failed: ' + p.stderr.decode()[-800:])
    return json.loads(p.stdout.decode())


def schedules(run_dir, k, maxpre, same_version=True):
    tlc.prepare(run_dir, ['Threads'])
    cfg = ('SPECIFICATION Spec\nCONSTANTS\n T = {1, 2}\n K = %d\n MaxPre = %d\n Versions <- Vers\n'
           'INVARIANT GrammarPublishedOncePerVersion\nINVARIANT AllUseWinner\n'
           'INVARIANT TokCollWritesOnlyDuringFirstUse\nINVARIANT Emit\n' % (k, maxpre))
    with open(os.path.join(run_dir, 'Threads.tla')) as f:
        src = f.read()
    src = src.replace('=====', 'Vers == %s\n=====' % ('(1 :> 1) @@ (2 :> 1)' if same_version else '(1 :> 1) @@ (2 :> 2)'), 1)
    with open(os.path.join(run_dir, 'Threads.tla'), 'w') as f:
        f.write(src)
    res = tlc.run(run_dir, 'Threads', cfg, workers=4, timeout=600)
    seen = set()
    out = []
    for s in res.printed('SCHED'):
        key = tuple(s[1])
        if key not in seen:
            seen.add(key)
            out.append(list(s[1]))
    return out, res


def run_once(tid, progs, schedule, cold, fresh, fp_warm, rng, line_mode=False):
    """progs: {thread: (version, text)}"""
    interned = run_once.interned
    if cold:
        sched.reset_memo()
    fp0 = sched.fingerprint()[0] if not cold else ''
    run_once.errors = []
    r = sched.Run({t: (lambda v=v, x=x: program(v, x, ('errors', 'tokens'))) for t, (v, x) in progs.items()},
                  schedule, block=rng.choice([7, 13, 25, 40]), offset=rng.randrange(40), line_mode=line_mode)
    r.run()
    run_once.memo_points = dict(r.memo_points)
    fp1 = sched.fingerprint()[0]
    if cold:
        # first use is over: running the same calls again (sequentially) must not change the shared state any more
        # (the generated tables are only unique up to state numbering, so a cold state cannot be compared with an
        # independently generated one)
        for t, (v, x) in sorted(progs.items()):
            safe_program(v, x, ('errors', 'tokens'), run_once.errors)
        fp_warm = sched.fingerprint()[0]
    events = []
    for t, res in sorted(r.results.items()):
        for key, d in (res or []):
            events.append({'thread': t, 'key': key, 'digest': interned.setdefault(d, len(interned) + 1),
                           'fresh': interned.setdefault(fresh.get(key, 'missing:' + key), len(interned) + 1)})
    return {'id': tid, 'events': events, 'expected': 5 * len(progs), 'warm': not cold,
            'fpBefore': interned.setdefault(fp0, len(interned) + 1), 'fpAfter': interned.setdefault(fp1, len(interned) + 1),
            'fpWarm': interned.setdefault(fp_warm, len(interned) + 1),
            'raised': ';'.join(['%s:%s' % kv for kv in sorted(r.errors.items(), key=str)] + run_once.errors[:2]),
            'schedule': schedule, 'progs': {str(k): [v[0], v[1][:60]] for k, v in progs.items()}, 'cold': cold,
            'yields': dict(r.yields), 'envchanged': ','.join(sorted(r.env_changes))}


run_once.interned = {}
run_once.errors = []


def warm_fp(version_sets):
    """the fully initialised shared state for a set of versions: sequential execution from a reset state"""
    out = {}
    for vs in version_sets:
        sched.reset_memo()
        for v in vs:
            for x in TEXTS[:2]:
                program(v, x, ('errors', 'tokens'))
        out[tuple(vs)] = sched.fingerprint()[0]
    return out


def run(tier):
    out = Outcome(PROP, tier, 'model_checking')
    rng = random.Random(seed())
    scratch = Scratch(PROP)
    try:
        s1, r1 = schedules(scratch.sub('t1'), 4, 3, True)
        s2, r2 = schedules(scratch.sub('t2'), 3 if tier == 'quick' else 4, 2 if tier == 'quick' else 3, False)
        out.add('states', r1.distinct + r2.distinct)
        out.add('transitions', r1.generated + r2.generated)
        for r in (r1, r2):
            if r.violated:
                out.drift.append('Threads spec violates %s' % r.violated)
        # one version from each side of the 3.8 split (the token patterns differ there), in random thread order
        va, vb = rng.choice(VERSIONS[:2]), rng.choice(VERSIONS[2:])
        calls = [[v, x] for v in sorted((va, vb), key=VERSIONS.index) for x in TEXTS]
        fresh = oracle(calls)
        traces = []
        n_cold = 40 if tier == 'quick' else 400
        plan = [(s, True) for s in s1] + [(s, False) for s in s2]
        if tier == 'quick' and len(plan) > 300:
            plan = rng.sample(plan, 300)
        for i, (s, same) in enumerate(plan):
            progs = {1: (va, TEXTS[i % 4]), 2: (va if same else vb, TEXTS[(i + 1 + i // 4) % 4])}
            cold = i < n_cold or i % 9 == 0
            if not cold:
                # make sure the state is fully warm for the versions in play
                for v, x in progs.values():
                    safe_program(v, x, ('errors', 'tokens'), [])
            key = (va,) if same else (va, vb)
            # a warm run may have more versions loaded than its own: the reference is taken right before it
            fp_ref = '' if cold else sched.fingerprint()[0]
            traces.append(run_once(i + 1, progs, s, cold, fresh, fp_ref, rng))
        # first-use races at LINE granularity: thread 1 is stopped before its n-th yield point inside the memoisation
        # functions (every call and every line of load_grammar / _get_token_collection), thread 2 then runs its whole
        # program, thread 1 resumes - for every n, from a cold state, same version and two versions, both orders
        BIG = 10 ** 6
        nline = 0
        for same in (True, False):
            for first in (1, 2):
                if same and first == 2:
                    continue                      # symmetric: both threads use the same version
                other = 3 - first
                progs = {1: (va, TEXTS[0]), 2: (va if same else vb, TEXTS[2])}
                probe = run_once(0, progs, [(first, BIG)], True, fresh, '', rng, line_mode=True)
                total = min(run_once.memo_points.get(first, 0), 120)
                ns = list(range(1, total + 1))
                if tier == 'quick' and not same and len(ns) > 12:
                    ns = sorted(rng.sample(ns, 12))   # quick: every point for one version, a sample for two
                for n_ in ns:
                    nline += 1
                    t = run_once(300000 + nline, progs, [(first, n_), (other, BIG), (first, BIG)], True, fresh, '', rng,
                                 line_mode=True)
                    t['schedule'] = ['line-mode', 'thread %d stopped before point %d of %d' % (first, n_, total),
                                     'same version' if same else 'two versions']
                    traces.append(t)
        out.cov(line_granularity_runs=nline)
        # sequential first-use orders of three grammar versions, each call after a prefix of other calls
        # one version from before the 3.8 split and two others; the reference interpreter sees them oldest first
        vs3 = [rng.choice(VERSIONS[:2])] + rng.sample(VERSIONS[2:], 2)
        fresh3 = oracle([[v, x] for v in sorted(vs3, key=VERSIONS.index) for x in TEXTS])
        for j, perm in enumerate(itertools.permutations(vs3)):
            sched.reset_memo()
            events = []
            seq_errors = []
            for v in perm:
                for x in TEXTS[:2] if j % 2 else TEXTS[2:]:
                    for key, d in safe_program(v, x, ('errors', 'tokens'), seq_errors):
                        I = run_once.interned
                        events.append({'thread': 0, 'key': key, 'digest': I.setdefault(d, len(I) + 1),
                                       'fresh': I.setdefault(fresh3.get(key, 'missing'), len(I) + 1)})
            fp = sched.fingerprint()[0]
            for v in perm:                      # once more: nothing may change after first use
                for x in TEXTS[:2] if j % 2 else TEXTS[2:]:
                    safe_program(v, x, ('errors', 'tokens'), seq_errors)
            seq_ref = sched.fingerprint()[0]
            I = run_once.interned
            traces.append({'id': 100000 + j, 'events': events, 'expected': len(events), 'warm': False,
                           'fpBefore': 0, 'fpAfter': I.setdefault(fp, len(I) + 1), 'fpWarm': I.setdefault(seq_ref, len(I) + 1),
                           'raised': ';'.join(seq_errors[:2]), 'schedule': ['sequential'] + list(perm), 'progs': {}, 'cold': True, 'yields': {},
                           'envchanged': ''})
        # call histories: many small programs (string literals with every prefix and escape, semantic-rule statements)
        # through one warm grammar in several orders; every result must be the fresh interpreter's and the shared
        # state must not move (state remembered from one call to a later one: memo tables keyed by text, counters)
        from checks import _semctx
        from harness import inputs
        lits = inputs.escape_literals()
        hist_texts = ['x = %s\n' % l for l in rng.sample(lits, min(len(lits), 60 if tier == 'quick' else 400))]
        hist_texts += [s + '\n' for s in rng.sample(_semctx.STMTS, 30 if tier == 'quick' else len(_semctx.STMTS))]
        hist_texts += ['a = 1+2', 'foo', 'x = (1,\n 2)', 'def f(x):\n    return x | 1', 'y = not z']   # no final line break
        hist_texts = sorted(set(hist_texts))
        vh = rng.choice(VERSIONS)
        fresh_h = oracle([[vh, x] for x in hist_texts])
        orders = [list(hist_texts), list(reversed(hist_texts))]
        for _ in range(2 if tier == 'quick' else 10):
            o = list(hist_texts)
            rng.shuffle(o)
            orders.append(o)
        for j, order in enumerate(orders):
            herr = []
            for x in TEXTS:
                safe_program(vh, x, ('errors', 'tokens'), [])
            fp0 = sched.fingerprint()[0]
            events = []
            I = run_once.interned
            for x in order:
                for key, d in safe_program(vh, x, ('errors', 'tokens'), herr):
                    events.append({'thread': 0, 'key': key, 'digest': I.setdefault(d, len(I) + 1),
                                   'fresh': I.setdefault(fresh_h.get(key, 'missing'), len(I) + 1)})
            fp1 = sched.fingerprint()[0]
            traces.append({'id': 200000 + j, 'events': events, 'expected': 5 * len(order), 'warm': True,
                           'fpBefore': I.setdefault(fp0, len(I) + 1), 'fpAfter': I.setdefault(fp1, len(I) + 1),
                           'fpWarm': I.setdefault(fp1, len(I) + 1), 'raised': ';'.join(herr[:2]),
                           'schedule': ['history', vh, j], 'progs': {'order': [t[:40] for t in order[:12]]}, 'cold': False,
                           'yields': {}, 'envchanged': ''})
        out.cov(history_orders=len(orders), history_calls_per_order=len(hist_texts))
        sched.reset_memo()
        slim = [{k: t[k] for k in ('id', 'events', 'expected', 'warm', 'fpBefore', 'fpAfter', 'fpWarm', 'raised', 'envchanged')}
                for t in traces]
        d = scratch.sub('v')
        tlc.prepare(d, ['ThreadTrace'], {'batch.json': json.dumps({'traces': slim})})
        res = tlc.run(d, 'ThreadTrace', 'SPECIFICATION Spec\n', workers=1, timeout=600)
        summ = res.printed('SUMMARY')
        if not summ:
            raise tlc.TLCError('ThreadTrace did not finish: ' + res.out[-1500:])
        by = {t['id']: t for t in traces}
        for r in res.printed('REJECT'):
            t = by[r[1]]
            out.violation(r[3] + ('|' + t['raised'] if t['raised'] else ''), 'ThreadTrace.' + r[3],
                          {'schedule': t['schedule'], 'programs': t['progs'], 'cold': t['cold'], 'raised': t['raised']},
                          {'kind': 'schedule', 'schedule': t['schedule'], 'progs': t['progs'], 'cold': t['cold']})
        out.add('states', res.distinct)
        out.add('transitions', res.generated)
        out.cov(traces_validated_against_impl=summ[-1][1], evaluations=len(traces),
                distinct_nontrivial=sum(1 for t in traces if len(set(t['schedule'])) > 1 and len(t['schedule']) > 4),
                schedules_same_grammar=len(s1), schedules_two_grammars=len(s2), cold_runs=sum(1 for t in traces if t['cold']),
                yield_points_per_run=traces[0]['yields'],
                rule='schedules = every complete interleaving of the Threads spec with <= 3 preemptions (2 threads, same '
                     'grammar; <= 2 (quick) with two grammars), sampled to 300 in quick; each imposed on real threads; cold '
                     'runs start from emptied memo tables (first-use races); + all 6 sequential first-use orders of 3 '
                     'versions; non-trivial = a schedule that actually switches threads')
        out.sample({'schedule': traces[3]['schedule'], 'programs': traces[3]['progs'], 'events': traces[3]['events'][:3]})
        out.assumptions += ['preemption only at the traced functions (token / pop / recovery / leaf-visit / memo access '
                            'granularity), one runnable thread at a time',
                            'the oracle digests come from a fresh interpreter running the calls sequentially']
    finally:
        sched.reset_memo()
        scratch.cleanup()
    return out


def replay(path):
    d = json.load(open(path))
    print(json.dumps(d, indent=1)[:3000])
    return 0
