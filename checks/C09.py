"""C09 - tokenizer lossless, position-true, indentation-balanced; prefixes pure; prefix splitting exact.

Decided by the A-spec TokenStream (token streams of tokenize()) and the C09 clause group of Tree
(PurePrefix / SplitPrefix* on every leaf of parse()), both evaluated by TLC on traces recorded from
the real code.  Inputs: every string TLC enumerates from spec Strings, token-pool strings, corpus
chunks and their token-level mutations.
"""
import random

from harness import inputs, pipeline, selftest
from harness.common import Scratch, VERSIONS, seed
from harness.result import Outcome

PROP = 'C09'


def build_items(tier, rng, scratch, out):
    n_main = 4 if tier == 'thorough' else 3
    strs, res = inputs.tlc_strings(scratch.sub('strings'), n_main)
    out.add('states', res.distinct)
    out.add('transitions', res.generated)
    out.cov(strings_bound=n_main, strings_enumerated=len(strs), exhaustive_strings=True)
    fstr, res2 = inputs.tlc_strings(scratch.sub('fstrings'), 5 if tier == 'thorough' else 4, inputs.FSTR_ALPHABET)
    if tier == 'thorough':
        # 20^5 = 3.2 M strings of 5 symbols: all of <= 4 symbols are kept, the 5-symbol ones are sampled (the full set
        # needs > 10 GB in the recorder processes: an earlier thorough run was killed by the kernel's OOM killer)
        nsym = __import__('re').compile('|'.join(__import__('re').escape(a) for a in
                                                 sorted(inputs.FSTR_ALPHABET, key=len, reverse=True)))
        short_f = [t for t in fstr if len(nsym.findall(t)) <= 4]
        long_f = [t for t in fstr if len(nsym.findall(t)) > 4]
        fstr = short_f + rng.sample(long_f, min(len(long_f), 400000))
        del long_f
    ind, res3 = inputs.tlc_strings(scratch.sub('indstrings'), 5 if tier == 'thorough' else 4, inputs.INDENT_ALPHABET)
    out.add('states', res2.distinct + res3.distinct)
    out.add('transitions', res2.generated + res3.generated)
    out.cov(fstring_strings=len(fstr), indent_strings=len(ind))
    items = []
    nid = [0]

    def add(text, ver, origin):
        nid[0] += 1
        items.append([nid[0], text, ver, origin])

    for s in strs:
        add(s, '3.9', 'strings')
    starts = ['f"', "f'", 'f"""', "rf'"]
    for i, s in enumerate(fstr):
        add(starts[i % 4 if tier == 'quick' else 0] + s, VERSIONS[i % 9], 'fstrings')
        if tier == 'thorough':
            add(starts[1 + i % 3] + s, VERSIONS[(i + 4) % 9], 'fstrings')
    for i, s in enumerate(ind):
        add(s, VERSIONS[i % 9], 'indstrings')
        if len(s) >= 2:
            add('if a:\n  b\n' + s, VERSIONS[(i + 3) % 9], 'indstrings')
    short = [s for s in strs if len(s) <= (3 if tier == 'thorough' else 2)]
    for v in VERSIONS:
        if v != '3.9':
            for s in (strs if v == '3.7' and tier == 'thorough' else short):
                add(s, v, 'strings')
    # longer class strings: random walks over the same alphabet, with class members varied
    for i in range(40000 if tier == 'thorough' else 6000):
        k = rng.randint(5, 14)
        s = ''.join(rng.choice(inputs.ALPHABET)[0] for _ in range(k))
        add(inputs.vary(s, rng), rng.choice(VERSIONS), 'class-walk')
    for s in inputs.pool_strings(30000 if tier == 'thorough' else 5000, rng):
        add(s, rng.choice(VERSIONS), 'pool')
    for v in (VERSIONS if tier == 'thorough' else [rng.choice(VERSIONS[:3]), rng.choice(VERSIONS[3:])]):
        sv = v if v in inputs.STDLIB else '3.12'
        ch = inputs.corpus_chunks(sv, 60 if tier == 'thorough' else 12, rng, per_file=12)
        for c in ch:
            add(c, v, 'corpus')
            m = c
            for _ in range(rng.randint(1, 3)):
                m = inputs.mutate(m, rng)
            add(m, v, 'corpus-mutated')
    return items


LEX = {'W1': ' ', 'W2': '  ', 'T': 'a', 'K': 'del', 'O': '(', 'C': ')', 'N': '\n', 'H': '#c', 'B': '\\\n', 'E': '$'}
TB_INVS = ['EnvOk', 'PrefixPure', 'IndentsSorted', 'DepthMatches', 'NoLexemeLost', 'EndsBalanced']


def tokenizer_b(out, tier, scratch, rng):
    """design: TokenizerB explored exhaustively (TokenizerB => TokEnv and the lexeme-level C09 clauses);
    binding: its simulated behaviours are rendered and the predicted token stream is compared with the real one"""
    import json
    from harness import record, tlc
    d = scratch.sub('tb')
    tb = {'maxcol': 6 if tier == 'quick' else 8, 'maxind': 2 if tier == 'quick' else 3, 'maxparen': 2, 'maxaddp': 3,
          'hist': False, 'closeat': 0}
    tlc.prepare(d, ['TokEnv', 'TokenizerB'], {'tb.json': json.dumps(tb)})
    cfg = 'SPECIFICATION Spec\nCONSTRAINT Bound\n' + ''.join('INVARIANT %s\n' % i for i in TB_INVS)
    res = tlc.run(d, 'TokenizerB', cfg, workers=4, timeout=1500)
    out.add('states', res.distinct)
    out.add('transitions', res.generated)
    if res.violated:
        out.drift.append('TokenizerB violates %s: %s' % (res.violated, res.out[-600:]))
    tb.update(hist=True, closeat=18, maxcol=99, maxind=9, maxparen=9, maxaddp=99)
    tlc.prepare(d, ['TokEnv', 'TokenizerB'], {'tb.json': json.dumps(tb)})
    sim = tlc.run(d, 'TokenizerB', 'SPECIFICATION Spec\n' + ''.join('INVARIANT %s\n' % i for i in TB_INVS), workers=2,
                  simulate='num=%d' % (400 if tier == 'quick' else 5000), depth=24, seed=rng.randrange(1 << 30), timeout=900)
    runs = [r[1] for r in sim.printed('LEXRUN')]
    agree = dis = 0
    for toks in runs:
        # rebuild the text from the predicted stream (prefix lexemes + token lexeme), then ask the real tokenizer
        text = ''
        want = []
        for typ, lx, col, pre in toks:
            ptxt = ''.join(LEX[x] for x in pre)
            stxt = LEX.get(lx, '')
            text += ptxt + stxt
            want.append((typ, stxt, col, ptxt))
        tr = record.token_trace(1, text, '3.9')
        got = [(t['t'], ''.join(map(chr, t['s'])), t['c'], ''.join(map(chr, t['p']))) for t in tr['toks']]
        if got == want:
            agree += 1
        else:
            dis += 1
            if dis <= 3:
                out.drift.append('TokenizerB and the real tokenizer disagree on %r: spec %s real %s' % (
                    text, want[:6], got[:6]))
    out.cov(tokenizerb_exhaustive_states=res.distinct, tokenizerb_runs=len(runs), tokenizerb_agree=agree,
            tokenizerb_disagree=dis)


from harness.inputs import FSTRINGB_LEX as FLEX, fstringb_valid as _fb_valid  # noqa: E402
FB_INVS = ['Tiles', 'Balanced', 'NoIndentInside', 'StringsPure', 'Columns', 'EnvOk']


def fstring_b(out, tier, scratch, rng):
    """FStringB (line-at-a-time model of the f-string sub-machine): design invariants explored exhaustively; real
    token streams of every valid line of <= 4 lexemes and of random 1-3 line texts are compared with the spec's
    Predict (code -> spec); simulated multi-line runs are rendered and tokenized for real (spec -> code)."""
    import itertools
    import json
    from harness import tlc
    from parso.python.tokenize import tokenize
    from parso.utils import parse_version_string
    d = scratch.sub('fb')
    fb = {'maxlen': 3, 'maxlines': 1 if tier == 'quick' else 2, 'hist': False, 'maxind': 3, 'mode': 'explore', 'traces': []}
    cfg = 'SPECIFICATION Spec\nCHECK_DEADLOCK FALSE\n' + ''.join('INVARIANT %s\n' % i for i in FB_INVS)
    tlc.prepare(d, ['TokEnv', 'FStringB'], {'fb.json': json.dumps(fb)})
    res = tlc.run(d, 'FStringB', cfg, workers=4, timeout=3000)
    out.add('states', res.distinct)
    out.add('transitions', res.generated)
    if res.violated:
        out.drift.append('FStringB violates %s: %s' % (res.violated, res.out[-600:]))

    raised = {}

    def real(lines, ver):
        text = ''.join(''.join(FLEX[x] for x in ln) + '\n' for ln in lines)
        try:
            return text, [[t.type.name, list(t.string), t.start_pos[1], list(t.prefix)]
                          for t in tokenize(text, version_info=parse_version_string(ver))]
        except Exception as e:  # noqa: the real tokenizer is total (C09): a raise is a violation, not drift
            from harness import record
            k = record.exc_key(e)
            if k not in raised:
                raised[k] = (text, ver)
                out.violation('NeverFails|' + k, 'TokenStream.NeverFails:raised', {'text': text, 'version': ver, 'exc': k},
                              {'kind': 'tokens', 'trace': {'text': text, 'ver': ver}})
            return text, []
    L = sorted(FLEX)
    traces = []
    texts = {}
    for k in range(0, 5):
        for ls in itertools.product(L, repeat=k):
            if _fb_valid(ls):
                text, toks = real([ls], '3.8')
                traces.append({'id': len(traces) + 1, 'lines': [list(ls)], 'toks': toks})
                texts[len(traces)] = text
    target = len(traces) + (25000 if tier == 'quick' else 250000)
    while len(traces) < target:
        lines = []
        for _ in range(rng.choice([1, 1, 2, 3])):
            ln = [rng.choice(L) for _ in range(rng.randrange(0, 10))]
            if rng.random() < .7:
                ln = ['F', rng.choice(['QS', 'QD'])] + ln
            lines.append(ln)
        if all(_fb_valid(ln) for ln in lines):
            text, toks = real(lines, rng.choice(['3.6', '3.8', '3.12', '3.13']))
            traces.append({'id': len(traces) + 1, 'lines': lines, 'toks': toks})
            texts[len(traces)] = text
    acc = rej = 0
    for i in range(0, len(traces), 40000):
        dd = scratch.sub('fbt%d' % i)
        fb.update(mode='trace', traces=traces[i:i + 40000], maxlen=0, maxlines=0)
        tlc.prepare(dd, ['TokEnv', 'FStringB'], {'fb.json': json.dumps(fb)})
        r = tlc.run(dd, 'FStringB', 'SPECIFICATION Spec\nCHECK_DEADLOCK FALSE\n', workers=1, timeout=1800)
        summ = r.printed('SUMMARY')
        if not summ:
            raise tlc.TLCError('FStringB trace run did not finish: ' + r.out[-800:])
        acc += summ[-1][1]
        rej += summ[-1][2]
        for x in r.printed('REJECT')[:3]:
            out.drift.append('FStringB and the real tokenizer disagree (%s) on %r' % (x[3], texts.get(x[1])))
        out.add('states', r.distinct)
        out.add('transitions', r.generated)
    # spec -> code: simulated runs of up to 3 lines with up to 6 lexemes
    ds = scratch.sub('fbs')
    fb.update(mode='explore', traces=[], maxlen=2, maxlines=3, hist=True)
    tlc.prepare(ds, ['TokEnv', 'FStringB'], {'fb.json': json.dumps(fb)})
    sim = tlc.run(ds, 'FStringB', cfg, workers=2, simulate='num=%d' % (300 if tier == 'quick' else 4000), depth=5,
                  seed=rng.randrange(1 << 30), timeout=900)
    agree = dis = 0
    for run_ in sim.printed('FRUN'):
        lines, want = run_[1], run_[2]
        text, got = real([list(ln) for ln in lines], '3.9')
        want = [[t[0], list(t[1]), t[2], list(t[3])] for t in want]
        if want == got:
            agree += 1
        else:
            dis += 1
            if dis <= 3:
                out.drift.append('FStringB run and the real tokenizer disagree on %r' % text)
    out.cov(fstringb_exhaustive_states=res.distinct, fstringb_traces_accepted=acc, fstringb_traces_rejected=rej,
            fstringb_runs_replayed=agree + dis, fstringb_runs_agree=agree)


CB_CH = {'q': "'", 'd': '"', 't': 't', 'w': ' ', 'eq': "\\'", 'ed': '\\"', 'o': '(', 'c': ')'}
CB_TERM = {'N': '\n', 'BN': '\\\n'}
CB_INVS = ['Accounted', 'StringShape', 'ErrorAtEnd', 'ContConsistent', 'EnvOk']


def contstr_b(out, tier, scratch, rng):
    """ContStrB (line-at-a-time model of ordinary / triple-quoted / continued strings): design invariants explored
    exhaustively; real token streams of every line of <= 3 atoms and of random 1-4 line texts against Predict;
    simulated runs replayed into the real tokenizer."""
    import itertools
    import json
    from harness import record, tlc
    from parso.python.tokenize import tokenize
    from parso.utils import parse_version_string
    d = scratch.sub('cb')
    cb = {'maxlen': 3, 'maxlines': 2, 'hist': False, 'maxind': 3, 'mode': 'explore', 'traces': []}
    cfg = 'SPECIFICATION Spec\nCHECK_DEADLOCK FALSE\n' + ''.join('INVARIANT %s\n' % i for i in CB_INVS)
    # thorough: every pair of lines of <= 3 atoms (a triple quote needs 3) and every 4 lines of <= 2 atoms;
    # quick: every line of <= 3 atoms and every pair of lines of <= 2 atoms (the multi-line cases come from the traces)
    for bi, (ml, mn) in enumerate([(3, 1), (2, 2)] if tier == 'quick' else [(3, 2), (2, 4)]):
        cb.update(maxlen=ml, maxlines=mn)
        tlc.prepare(d, ['TokEnv', 'ContStrB'], {'cb.json': json.dumps(cb)})
        res = tlc.run(d, 'ContStrB', cfg, workers=4, timeout=3000)
        out.add('states', res.distinct)
        out.add('transitions', res.generated)
        if res.violated:
            out.drift.append('ContStrB violates %s: %s' % (res.violated, res.out[-600:]))
    raised = {}

    def real(lines, ver):
        text = ''.join(''.join(CB_CH[a] for a in ln) + CB_TERM[t] for ln, t in lines)
        try:
            return text, [[t.type.name, list(t.string), t.start_pos[0], t.start_pos[1], list(t.prefix)]
                          for t in tokenize(text, version_info=parse_version_string(ver))]
        except Exception as e:  # noqa: the real tokenizer is total (C09): a raise is a violation, not drift
            k = record.exc_key(e)
            if k not in raised:
                raised[k] = (text, ver)
                out.violation('NeverFails|' + k, 'TokenStream.NeverFails:raised', {'text': text, 'version': ver, 'exc': k},
                              {'kind': 'tokens', 'trace': {'text': text, 'ver': ver}})
            return text, []
    A = sorted(CB_CH)
    traces = []
    texts = {}
    for k in range(0, 4):
        for ls in itertools.product(A, repeat=k):
            for t in ('N', 'BN'):
                text, toks = real([(ls, t)], '3.8')
                traces.append({'id': len(traces) + 1, 'lines': [[list(ls), t]], 'toks': toks})
                texts[len(traces)] = text
    target = len(traces) + (20000 if tier == 'quick' else 200000)
    while len(traces) < target:
        lines = []
        for _ in range(rng.choice([1, 2, 2, 3, 4])):
            ln = [rng.choice(A) for _ in range(rng.randrange(0, 8))]
            if rng.random() < .3:
                ln = ln[:2] + [rng.choice('qd')] * 3 + ln[2:]
            lines.append((ln, rng.choice(['N', 'N', 'BN'])))
        text, toks = real(lines, rng.choice(['3.6', '3.8', '3.12', '3.13']))
        traces.append({'id': len(traces) + 1, 'lines': [[list(l), t] for l, t in lines], 'toks': toks})
        texts[len(traces)] = text
    acc = rej = 0
    for i in range(0, len(traces), 40000):
        dd = scratch.sub('cbt%d' % i)
        cb.update(mode='trace', traces=traces[i:i + 40000], maxlen=0, maxlines=0)
        tlc.prepare(dd, ['TokEnv', 'ContStrB'], {'cb.json': json.dumps(cb)})
        r = tlc.run(dd, 'ContStrB', 'SPECIFICATION Spec\nCHECK_DEADLOCK FALSE\n', workers=1, timeout=1800)
        summ = r.printed('SUMMARY')
        if not summ:
            raise tlc.TLCError('ContStrB trace run did not finish: ' + r.out[-800:])
        acc += summ[-1][1]
        rej += summ[-1][2]
        for x in r.printed('REJECT')[:3]:
            out.drift.append('ContStrB and the real tokenizer disagree (%s) on %r' % (x[3], texts.get(x[1])))
        out.add('states', r.distinct)
        out.add('transitions', r.generated)
    ds = scratch.sub('cbs')
    cb.update(mode='explore', traces=[], maxlen=2, maxlines=4, hist=True)
    tlc.prepare(ds, ['TokEnv', 'ContStrB'], {'cb.json': json.dumps(cb)})
    sim = tlc.run(ds, 'ContStrB', cfg, workers=2, simulate='num=%d' % (300 if tier == 'quick' else 4000), depth=6,
                  seed=rng.randrange(1 << 30), timeout=900)
    agree = dis = 0
    for run_ in sim.printed('CRUN'):
        lines, want = run_[1], run_[2]
        text, got = real([(list(ln[0]), ln[1]) for ln in lines], '3.9')
        want = [[t[0], list(t[1]), t[2], t[3], list(t[4])] for t in want]
        if want == got:
            agree += 1
        else:
            dis += 1
            if dis <= 3:
                out.drift.append('ContStrB run and the real tokenizer disagree on %r' % text)
    out.cov(contstrb_exhaustive_states=res.distinct, contstrb_traces_accepted=acc, contstrb_traces_rejected=rej,
            contstrb_runs_replayed=agree + dis, contstrb_runs_agree=agree)


PB_CH = {'sp': ' ', 'tab': '\t', 'ff': '\f', 'nl': '\n', 'crnl': '\r\n', 'cr': '\r', 'cmt': '#c', 'cmtff': '#c\fd',
         'bsnl': '\\\n', 'bscr': '\\\r', 'bscrnl': '\\\r\n', 'bom': '\ufeff'}
PB_INVS = ['PartsTile', 'PositionsTrue', 'EndsMeet', 'LastIsSpacing']


def _pb_valid(p):
    for i, a in enumerate(p):
        if a == 'bom' and i:
            return False
        if i + 1 < len(p):
            if a in ('cmt', 'cmtff') and p[i + 1] not in ('nl', 'crnl', 'cr'):
                return False
            if a in ('cr', 'bscr') and p[i + 1] == 'nl':
                return False
    return True


def prefix_b(out, tier, scratch, rng):
    """PrefixB (model of split_prefix): design invariants over all valid prefixes of <= 4 atoms x 3 start positions;
    the real split_prefix on every valid prefix of <= 4 atoms and on random longer ones against the spec's Parts;
    a raise of the real function is a violation (C09: prefix splitting is total)"""
    import itertools
    import json
    import types
    from harness import record, tlc
    from parso.python.prefix import split_prefix
    d = scratch.sub('pb')
    tlc.prepare(d, ['PrefixB'], {'pb.json': json.dumps({'maxlen': 3 if tier == 'quick' else 4, 'mode': 'explore', 'traces': []})})
    res = tlc.run(d, 'PrefixB', 'SPECIFICATION Spec\nCHECK_DEADLOCK FALSE\n' + ''.join('INVARIANT %s\n' % i for i in PB_INVS),
                  workers=4, timeout=1800)
    out.add('states', res.distinct)
    out.add('transitions', res.generated)
    if res.violated:
        out.drift.append('PrefixB violates %s: %s' % (res.violated, res.out[-600:]))
    A = sorted(PB_CH)

    def enc(s_):
        return ['BOM' if c == '\ufeff' else c for c in s_]
    seen_exc = set()

    def rec(i, p, line, col):
        text = ''.join(PB_CH[a] for a in p)
        tr = {'id': i, 'pre': list(p), 'line': line, 'col': col, 'raised': False, 'parts': []}
        try:
            for part in split_prefix(types.SimpleNamespace(prefix=text), (line, col)):
                tr['parts'].append([part.type, enc(part.value), enc(part.spacing), part.start_pos[0], part.start_pos[1]])
        except Exception as e:  # noqa
            tr['raised'] = True
            k = record.exc_key(e)
            if k not in seen_exc:
                seen_exc.add(k)
                out.violation('SplitPrefixNeverFails|' + k, 'Tree.C09.SplitPrefixNeverFails',
                              {'prefix': text, 'exc': k}, {'kind': 'prefix', 'trace': {'text': text + 'a', 'ver': '3.9'}})
        return tr
    traces = []
    texts = {}
    for k in range(0, 5):
        for p in itertools.product(A, repeat=k):
            if not _pb_valid(p):
                continue
            for (l, c) in [(1, 0), (3, 0), (2, 5)]:
                if p and p[0] == 'bom' and (l, c) != (1, 0):
                    continue
                traces.append(rec(len(traces) + 1, p, l, c))
    target = len(traces) + (5000 if tier == 'quick' else 60000)
    while len(traces) < target:
        p = tuple(rng.choice(A[1:]) for _ in range(rng.randrange(5, 11)))
        if _pb_valid(p):
            traces.append(rec(len(traces) + 1, p, rng.choice([1, 4]), rng.choice([0, 3])))
    acc = rej = 0
    for i in range(0, len(traces), 50000):
        dd = scratch.sub('pbt%d' % i)
        tlc.prepare(dd, ['PrefixB'], {'pb.json': json.dumps({'maxlen': 0, 'mode': 'trace', 'traces': traces[i:i + 50000]})})
        r = tlc.run(dd, 'PrefixB', 'SPECIFICATION Spec\nCHECK_DEADLOCK FALSE\n', workers=1, timeout=1800)
        summ = r.printed('SUMMARY')
        if not summ:
            raise tlc.TLCError('PrefixB trace run did not finish: ' + r.out[-800:])
        acc += summ[-1][1]
        rej += summ[-1][2]
        by = {t['id']: t for t in traces[i:i + 50000]}
        for x in r.printed('REJECT')[:3]:
            if x[3] != 'SplitNeverFails':
                out.drift.append('PrefixB and the real split_prefix disagree (%s) on %r' % (
                    x[3], ''.join(PB_CH[a] for a in by[x[1]]['pre'])))
        out.add('states', r.distinct)
        out.add('transitions', r.generated)
    out.cov(prefixb_exhaustive_states=res.distinct, prefixb_traces_accepted=acc, prefixb_traces_rejected=rej)


def start_pos_probe(out, items, rng):
    """tokenize(start_pos=(line, column)): the diff parser (and callers that tokenize a fragment) rely on it.  For
    single-line texts the stream with a shifted start must be the unshifted stream (whose positions TLC has checked
    against the text) with every position moved by the offset; indentation tokens, which legitimately react to the
    faked column, are left out of the comparison."""
    from parso.python.tokenize import tokenize
    from parso.utils import parse_version_string
    from harness import record
    LAYOUT = ('INDENT', 'DEDENT', 'ERROR_DEDENT')
    cand = [it for it in items if it[1] and '\n' not in it[1] and '\r' not in it[1] and not it[1].startswith('\ufeff')
            and '\f' not in it[1]]
    cand = rng.sample(cand, min(len(cand), 4000))
    n = 0
    for tid, text, ver, origin in cand:
        for (dl, dc) in ((0, 3), (4, 7)):
            vi = parse_version_string(ver)
            try:
                base = [(t.type.name, t.string, t.start_pos, t.prefix) for t in tokenize(text, version_info=vi)
                        if t.type.name not in LAYOUT]
                moved = [(t.type.name, t.string, t.start_pos, t.prefix)
                         for t in tokenize(text, version_info=vi, start_pos=(1 + dl, dc)) if t.type.name not in LAYOUT]
            except Exception as e:  # noqa
                out.violation('NeverFails|' + record.exc_key(e), 'TokenStream.NeverFails:raised',
                              {'text': text, 'version': ver, 'start_pos': [1 + dl, dc]},
                              {'kind': 'tokens', 'trace': {'text': text, 'ver': ver}})
                continue
            n += 1
            want = [(ty, st, (p[0] + dl, p[1] + dc), pre) for ty, st, p, pre in base]
            if moved != want:
                k = next((i for i, (a, b) in enumerate(zip(moved, want)) if a != b), min(len(moved), len(want)))
                out.violation('TruePos:shifted-start', 'TokenStream.TruePos:shifted-start',
                              {'text': text, 'version': ver, 'start_pos': [1 + dl, dc],
                               'got': list(moved[k]) if k < len(moved) else None,
                               'want': list(want[k]) if k < len(want) else None},
                              {'kind': 'tokens', 'trace': {'text': text, 'ver': ver}})
                break
    out.cov(start_pos_probes=n)


def classify(rej):
    """cause key of a rejected observation"""
    r = rej['reject']
    clause = r[3] if len(r) > 3 else '?'
    exc = (rej['trace'] or {}).get('exc', '')
    if exc:
        return '%s|%s' % (clause.split(':')[0], exc.split(';')[0])
    return clause


def run(tier):
    out = Outcome(PROP, tier, 'model_checking')
    rng = random.Random(seed())
    scratch = Scratch(PROP)
    try:
        items = build_items(tier, rng, scratch, out)
        tok = pipeline.validate(items, 'harness.recorders.rec_tokens', {}, scratch.sub('tok'),
                                ['TokenStream', 'TokTrace'], 'TokTrace', batch_name='traces.json',
                                specname='SpecWhole')
        # tree half: prefixes of the leaves parse() builds (smaller set: trees are costlier)
        lim = 60000 if tier == 'thorough' else 9000
        titems = [it for it in items if it[3] not in ('strings', 'fstrings', 'indstrings') or len(it[1]) <= 3]
        titems += rng.sample([it for it in items if it[3] in ('fstrings', 'indstrings')], 3000)
        if len(titems) > lim:
            titems = rng.sample(titems, lim)
        tre = pipeline.validate(titems, 'harness.recorders.rec_trees',
                                {'nav': False, 'parts': True, 'posq': 0, 'code_budget': 0, 'seed': seed()},
                                scratch.sub('tree'), ['TokenStream', 'Tree', 'TreeTrace'], 'TreeTrace',
                                wrap_extra={'groups': ['C09']})
        for part, name in ((tok, 'TokenStream'), (tre, 'Tree.C09')):
            for rej in part['rejected']:
                r = rej['reject']
                out.violation(classify(rej), '%s.%s' % (name, r[3] if name == 'TokenStream' else r[3]),
                              {'reject': r, 'text': (rej['trace'] or {}).get('text'),
                               'version': (rej['trace'] or {}).get('ver')},
                              {'kind': 'tokens' if name == 'TokenStream' else 'tree', 'trace': rej['trace']})
        out.add('states', tok['states'] + tre['states'])
        out.add('transitions', tok['generated'] + tre['generated'])
        out.cov(traces_validated_against_impl=tok['accepted'] + tre['accepted'],
                token_traces=tok['n'], tree_traces=tre['n'],
                evaluations=tok['n'] + tre['n'],
                distinct_nontrivial=len({(it[1], it[2]) for it in items if len(it[1]) > 1}),
                rule='texts = all strings TLC enumerates from Strings (bound above) + class walks + token-pool '
                     'strings + stdlib chunks and token-level mutations; one token trace per (text, version), one '
                     'tree trace for a subset; non-trivial = more than one character; distinct by (text, version)')
        for s in (tok['samples'][:3] + tre['samples'][:2]):
            out.sample(s)
        out.assumptions += ['TLC and the JSON recorder layer are trusted; recorders log values only',
                            'positions: only \\n, \\r\\n, \\r are line breaks, a leading BOM has zero width']
        start_pos_probe(out, items, rng)
        tokenizer_b(out, tier, scratch, rng)
        fstring_b(out, tier, scratch, rng)
        contstr_b(out, tier, scratch, rng)
        prefix_b(out, tier, scratch, rng)
        bind = selftest.binding_tokens(scratch.sub('bind'))
        out.cov(binding_demonstrated=bind)
        if not bind['ok']:
            out.drift.append('binding self-test failed: %s' % bind)
    finally:
        scratch.cleanup()
    return out


def replay(path):
    import json
    from harness import record
    d = json.load(open(path))
    t = d['replay']['trace']
    print('replaying', repr(t.get('text')), t.get('ver'))
    tr = record.token_trace(1, t['text'], t['ver'])
    print([(x['t'], ''.join(map(chr, x['s'])), ''.join(map(chr, x['p'])), x['l'], x['c']) for x in tr['toks']],
          'raised' if tr['raised'] else '')
    return 0
