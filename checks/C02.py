"""C02 - error recovery is total.

Real-code half: every text of the standard set plus the depth probes (each recursive construct nested
exactly 100 deep, the bound in the property) is parsed by the real recovering parser; a raised exception
is a rejected trace (NeverFails) and the returned tree must satisfy the Tree.C02 shape clauses.
Design half (ParserB.NeverCrash over all token streams up to a bound) is added by checks/_parserb.py
when the ParserB model is available."""
from checks import _tree
from harness.common import VERSIONS

PROP = 'C02'
D = 100


def depth_probes(rng):
    ind = ''.join('%sif x:\n' % (' ' * i) for i in range(D)) + ' ' * D + 'pass\n'
    probes = {
        'parens': '(' * D + 'x' + ')' * D,
        'brackets': '[' * D + ']' * D,
        'unclosed': '(' * D + 'x',
        'unopened': 'x' + ')' * D,
        'mixed-unclosed': '([{' * (D // 3) + 'x',
        'not': 'not ' * D + 'x',
        'unary': '-' * D + 'x',
        'await': 'async def f():\n    ' + 'await ' * D + 'x\n',
        'power': '**'.join(['x'] * D),
        'lambda': 'lambda: ' * D + 'x',
        'attr': 'x' + '.a' * D,
        'calls': 'x' + '()' * D,
        'subscripts': 'x' + '[0]' * D,
        'dict': '{1:' * D + '2' + '}' * D,
        'ternary': 'a if b else ' * D + 'c',
        'compare': ' < '.join(['x'] * D),
        'indent': ind,
        'indent-broken': ind.replace('pass', ')'),
        'dedent-stairs': ''.join('%sif x:\n' % (' ' * i) for i in range(D)) +
                         ''.join('%sy\n' % (' ' * i) for i in range(D, 0, -3)),
        'fstring-nest': 'f"{' * 3 + 'x' + '}"' * 3,
        'fstring-unclosed': 'f"{' * D,
        'decorators': '@d\n' * D + 'def f(): pass\n',
        'else-chain': 'if a: pass\n' + 'elif b: pass\n' * D,
        'comprehension': '[x ' + 'for x in y ' * D + ']',
        'strings': '"a" ' * D,
        'backslashes': '\\\n' * D + 'x',
        'semicolons': 'x;' * D,
        'classes': ''.join('%sclass C:\n' % (' ' * i) for i in range(D)) + ' ' * D + 'x = 1\n',
    }
    for name, text in probes.items():
        for v in VERSIONS:
            yield text, v, 'depth-probe:' + name


def run(tier):
    budget = 120000 if tier == 'thorough' else 24000
    out, res = _tree.run_groups(PROP, ['C02'], tier, {'nav': False, 'parts': False, 'posq': 0, 'code_budget': 0},
                                budget, extra_items=depth_probes,
                                note=' + depth probes (28 recursive constructs nested exactly 100 deep x 9 versions)')
    out.cov(depth_probes=28 * len(VERSIONS))
    try:
        from checks import _parserb
    except ImportError:
        _parserb = None
    if _parserb is not None:
        _parserb.design_part(out, tier, PROP)
    return out


replay = _tree.replay_tree
