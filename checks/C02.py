"""C02 - error recovery is total.

Real-code half: every text of the standard set plus the depth probes (each recursive construct nested
exactly 100 deep, the bound in the property) is parsed by the real recovering parser; a raised exception
is a rejected trace (NeverFails) and the returned tree must satisfy the Tree.C02 shape clauses.
Design half (ParserB.NeverCrash over all token streams up to a bound) is added by checks/_parserb.py
when the ParserB model is available."""
from checks import _tree
from harness.common import VERSIONS

PROP = 'C02'
D = 100


def depth_probes(rng):
    ind = ''.join('%sif x:\n' % (' ' * i) for i in range(D)) + ' ' * D + 'pass\n'
    probes = {
        'parens': '(' * D + 'x' + ')' * D,
        'brackets': '[' * D + ']' * D,
        'unclosed': '(' * D + 'x',
        'unopened': 'x' + ')' * D,
        'mixed-unclosed': '([{' * (D // 3) + 'x',
        'not': 'not ' * D + 'x',
        'unary': '-' * D + 'x',
        'await': 'async def f():\n    ' + 'await ' * D + 'x\n',
        'power': '**'.join(['x'] * D),
        'lambda': 'lambda: ' * D + 'x',
        'attr': 'x' + '.a' * D,
        'calls': 'x' + '()' * D,
        'subscripts': 'x' + '[0]' * D,
        'dict': '{1:' * D + '2' + '}' * D,
        'ternary': 'a if b else ' * D + 'c',
        'compare': ' < '.join(['x'] * D),
        'indent': ind,
        'indent-broken': ind.replace('pass', ')'),
        'dedent-stairs': ''.join('%sif x:\n' % (' ' * i) for i in range(D)) +
                         ''.join('%sy\n' % (' ' * i) for i in range(D, 0, -3)),
        'fstring-nest': 'f"{' * 3 + 'x' + '}"' * 3,
        'fstring-unclosed': 'f"{' * D,
        'decorators': '@d\n' * D + 'def f(): pass\n',
        'else-chain': 'if a: pass\n' + 'elif b: pass\n' * D,
        'comprehension': '[x ' + 'for x in y ' * D + ']',
        'strings': '"a" ' * D,
        'backslashes': '\\\n' * D + 'x',
        'semicolons': 'x;' * D,
        'classes': ''.join('%sclass C:\n' % (' ' * i) for i in range(D)) + ' ' * D + 'x = 1\n',
    }
    for name, text in probes.items():
        for v in VERSIONS:
            yield text, v, 'depth-probe:' + name
    # every layout string of <= 4 symbols (names, brackets, line ends, comments, continuation lines, indentation,
    # a block header): the cheapest inputs on which indentation bookkeeping and recovery can disagree
    import itertools
    from harness import inputs
    k = 0
    for n in range(1, 5):
        for tup in itertools.product(inputs.LAYOUT_ALPHABET, repeat=n):
            k += 1
            yield ''.join(tup), VERSIONS[k % len(VERSIONS)], 'layout'


LONG = {
    # single tokens and flat runs far longer than anything in the enumerations: the time to parse them must stay
    # (nearly) linear - each is parsed in a child process under a generous limit
    'digits-40': 'x = ' + '1234567890' * 4 + '\n', 'digits-77': 'p = 2 ** 255 - ' + '57896044618658097711785492504343953926634992332820282019728792003956564819949' + '\n',
    'digits-400': 'x = ' + '9' * 400 + '\n', 'digits-underscore': 'x = ' + '_'.join(['123'] * 30) + '\n',
    'float-long': 'x = ' + '1' * 60 + '.' + '2' * 60 + 'e' + '3' * 10 + '\n', 'hex-long': 'x = 0x' + 'abcdef0123' * 12 + '\n',
    'imag-long': 'x = ' + '7' * 50 + 'j\n', 'digits-then-name': 'x = ' + '5' * 45 + 'abc\n', 'zeros': 'x = ' + '0' * 60 + '\n',
    'name-long': 'a' * 20000 + ' = 1\n', 'string-long': 's = "' + 'ab ' * 30000 + '"\n', 'comment-long': '#' + ' x' * 40000 + '\n',
    'blanks-long': 'x' + ' ' * 50000 + '= 1\n', 'operators-long': 'x = 1' + ' + 1' * 20000 + '\n', 'dots': 'x' + '.' * 3000 + '\n',
    'backslash-chain': 'x = 1 + \\\n' * 3000 + '1\n', 'quotes': "'" * 3001 + '\n', 'fstring-braces': 'f"' + '{{' * 5000 + '"\n',
    'fstring-fields': 'f"' + '{a}' * 3000 + '"\n', 'unterminated-triple': '"""' + 'line\n' * 5000, 'stars': 'x = ' + '*' * 3000 + 'y\n',
    'bytes-escapes': 'b = b"' + '\\x00' * 10000 + '"\n', 'many-lines': 'x = 1\n' * 20000, 'semicolon-run': ';' * 5000 + '\n',
    'non-ascii-name': '\u00e9' * 5000 + ' = 1\n', 'illegal-chars': '$?' * 5000 + '\n', 'at-run': '@' * 3000 + '\n',
}
CHILD = r"""
import sys, time, json
sys.path.insert(0, %r)
import parso
texts = json.load(sys.stdin)
for name, ver, text in texts:
    t = time.time()
    try:
        m = parso.load_grammar(version=ver).parse(text)
        ok = 'ok' if m.get_code() == text else 'code-differs'
    except RecursionError:
        ok = 'ok'          # deep flat chains: outside the 100-level bound of the property
    except Exception as e:
        ok = 'raised ' + type(e).__name__
    print(json.dumps([name, ver, ok, round(time.time() - t, 2)]), flush=True)
"""


def termination_probes(out, tier):
    """C02 says parsing TERMINATES: long single tokens and long flat runs, each under a time limit in a child process"""
    import json
    import subprocess
    from harness.common import REPO
    versions = VERSIONS if tier == 'thorough' else [VERSIONS[0], VERSIONS[-1]]
    todo = [[n, v, t] for n, t in LONG.items() for v in versions]
    limit = 120          # seconds for one text (they take well under a second each)
    done = 0
    while todo:
        p = subprocess.Popen(['/venv/bin/python', '-c', CHILD % REPO], stdin=subprocess.PIPE, stdout=subprocess.PIPE,
                             stderr=subprocess.DEVNULL)
        p.stdin.write(json.dumps(todo).encode())
        p.stdin.close()
        import select
        finished = 0
        while finished < len(todo):
            r, _, _ = select.select([p.stdout], [], [], limit)
            if not r:
                break
            line = p.stdout.readline()
            if not line:
                break
            name, ver, ok, dt = json.loads(line)
            finished += 1
            done += 1
            if ok != 'ok':
                out.violation('NeverFails:%s|long-token' % ok.split()[0], 'Tree.ALL.NeverFails:raised',
                              {'probe': name, 'version': ver, 'result': ok}, {'kind': 'probe', 'text': LONG[name], 'version': ver})
        p.kill()
        if finished < len(todo):
            name, ver, text = todo[finished]
            out.violation('Terminates|long-token', 'Tree.ALL.Terminates',
                          {'probe': name, 'version': ver, 'limit_s': limit, 'text': text[:80]},
                          {'kind': 'probe', 'text': text, 'version': ver})
            todo = todo[finished + 1:]
        else:
            todo = []
    out.cov(termination_probes=done)


def run(tier):
    budget = 120000 if tier == 'thorough' else 24000
    out, res = _tree.run_groups(PROP, ['C02'], tier, {'nav': False, 'parts': False, 'posq': 0, 'code_budget': 0},
                                budget, extra_items=depth_probes,
                                note=' + depth probes (28 recursive constructs nested exactly 100 deep x 9 versions)')
    out.cov(depth_probes=28 * len(VERSIONS))
    termination_probes(out, tier)
    try:
        from checks import _parserb
    except ImportError:
        _parserb = None
    if _parserb is not None:
        _parserb.design_part(out, tier, PROP)
    return out


replay = _tree.replay_tree
