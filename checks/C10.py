"""C10 - tokenization of valid programs matches CPython's own tokenizer (relation TokenAgreement in spec Relational,
evaluated by TLC; oracle = tokenize of interpreter V, 3.14 judged by the newest available interpreter)."""
import random

from checks import _rel
from harness import oracle, record
from harness.common import Scratch, VERSIONS, seed
from harness.result import Outcome

PROP = 'C10'
BREAK_KEYWORDS = {'import', 'class', 'def', 'try', 'except', 'finally', 'while', 'with', 'return', 'continue', 'break',
                  'del', 'pass', 'global', 'assert', 'nonlocal'}
FPREFIX = ('f', 'F', 'rf', 'fr', 'Rf', 'fR', 'rF', 'Fr', 'RF', 'FR')


def token_pair(tid, text, v, cpy):
    from parso.python.tokenize import tokenize
    from parso.utils import parse_version_string
    interned = {'': 1}

    def I(s):
        return interned.setdefault(s, len(interned) + 1)
    ctoks = []
    for t, s, l, c, el, ec in cpy:
        isf = t == 'STRING' and s.split("'")[0].split('"')[0] in FPREFIX
        ctoks.append({'t': t, 's': I(s), 'l': l, 'c': c, 'el': el, 'ec': ec, 'f': isf})
    ptoks = []
    praised = False
    try:
        for t in tokenize(text, version_info=parse_version_string(v)):
            ptoks.append({'t': t.type.name, 's': I(t.string), 'l': t.start_pos[0], 'c': t.start_pos[1], 'el': 0, 'ec': 0,
                          'f': False})
    except Exception:
        praised = True
    # a statement keyword while CPython still has a bracket open (only in programs that do not compile): parso's
    # tokenizer deliberately closes all brackets there (error recovery) - cause class of a known finding
    depth = 0
    bk = False
    for t, s, l, c, el, ec in cpy:
        if t == 'OP' and s in '([{':
            depth += 1
        elif t == 'OP' and s in ')]}' and depth:
            depth -= 1
        elif t == 'NAME' and depth and s in BREAK_KEYWORDS:
            bk = True
    return {'id': tid, 'kind': 'tokens', 'bk': bk, 'v312': tuple(map(int, v.split('.'))) >= (3, 12), 'cpy': ctoks, 'par': ptoks,
            'empty': 1, 'praised': praised, 'text': text, 'ver': v,
            'ff': bool(__import__('re').search(r'(?m)^[ \t]*\f', text)),
            # a physical line that holds nothing but blanks and a backslash continuation (cause class of a known finding)
            'bs': bool(__import__('re').search(r'(?m)^[ \t\f]*\\\r?\n', text))}


def _c_tokenizer(jv):
    return tuple(int(x) for x in jv.split('.')[:2]) >= (3, 12)


def _balanced(toks):
    """pure-Python tokenize (<= 3.11) goes on after an unmatched closing bracket and at the end of input inside an open
    one, where the real tokenizer stops with an error: such streams are reference artefacts"""
    depth = 0
    for t in toks:
        if t[0] == 'OP' and t[1] in '([{':
            depth += 1
        elif t[0] == 'OP' and t[1] in ')]}':
            depth -= 1
            if depth < 0:
                return False
    return depth == 0


def _parser_level(err):
    return err.startswith(('SyntaxError: invalid syntax', 'SyntaxError: expected', 'IndentationError: expected an indented'))


_NUMBER = __import__('re').compile(
    r'(?i)(0x(_?[0-9a-f])+|0b(_?[01])+|0o(_?[0-7])+|(0(_?0)*|[1-9](_?[0-9])*)|'
    r'(([0-9](_?[0-9])*)?\.[0-9](_?[0-9])*|[0-9](_?[0-9])*\.)(e[-+]?[0-9](_?[0-9])*)?|[0-9](_?[0-9])*e[-+]?[0-9](_?[0-9])*)j?\Z|'
    r'[0-9](_?[0-9])*j\Z')


def _clean_tokens(toks):
    import token
    ops = set(token.EXACT_TOKEN_TYPES)
    for t in toks:
        if t[0] == 'OP' and t[1] not in ops:
            return False
        if t[0] == 'NAME' and not t[1].isidentifier():
            return False
        if t[0] == 'NUMBER' and not _NUMBER.match(t[1]):
            return False
    return True


def _empty_logical_line(toks):
    """The pure-Python tokenize module (<= 3.11) reports NEWLINE (and INDENT / DEDENT around it) for a logical line that
    consists of backslash continuations and blanks only, e.g. '\\\n\n'; the C tokenizer - the one that reads programs,
    and since 3.12 also the one behind tokenize - reports NL.  Such streams say nothing about CPython's tokenizer, so the
    program is not used (counted in coverage as reference_artefacts_skipped)."""
    seen = False
    for t in toks:
        if t[0] == 'NEWLINE':
            if not seen:
                return True
            seen = False
        elif t[0] not in ('NL', 'COMMENT', 'ENCODING', 'INDENT', 'DEDENT', 'ENDMARKER'):
            seen = True
    return False


def run(tier):
    out = Outcome(PROP, tier, 'exploration')
    rng = random.Random(seed())
    versions = VERSIONS if tier == 'thorough' else [rng.choice(VERSIONS[:6]), rng.choice(VERSIONS[6:])]
    progs = _rel.programs(out, tier, PROP, versions, 2500 if tier == 'thorough' else 250, rng, literals=True)
    scratch = Scratch(PROP)
    try:
        # tokenize the way Grammar.parse does: with the grammar of the version loaded first (loading a grammar
        # tokenizes the grammar file itself, with the patterns of another version)
        parso = record.parso
        for v in sorted(progs, reverse=True):
            parso.load_grammar(version=v)
        traces = []
        nacc_ref = 0
        n_artefact = 0
        n_nocompile = 0
        for v, plist in progs.items():
            jv = oracle.judge_version(v)
            texts = [t for t, _ in plist]
            res = oracle.run_script(jv, oracle.TOKENIZE, texts)
            comp = oracle.run_script(jv, oracle.COMPILE, texts)
            for (text, origin), r, cr in zip(plist, res, comp):
                if __import__('re').search(r'\r(?!\n)', text):
                    continue        # the reference (tokenize over readline) does not treat a bare \\r as a line break
                if not r['ok'] or any(t[0] == 'ERRORTOKEN' for t in r['toks']):
                    continue        # CPython does not tokenize it without error: no claim
                if not cr['ok'] and not (_parser_level(cr.get('err', '')) and _clean_tokens(r['toks'])
                                        and (_c_tokenizer(jv) or _balanced(r['toks']))):
                    # a program that tokenizes but does not compile is only used when the reference IS the C tokenizer
                    # (tokenize of 3.12+), the compiler's complaint is a parser-level one ("invalid syntax", "expected ..."),
                    # and no token is one that tokenize merely passes through although the real tokenizer rejects it
                    # (`$`, `?`, U+00A0 come back as OP / NAME, `09` as NUMBER); the pure-Python tokenize of <= 3.11 accepts streams the real tokenizer
                    # rejects (`)(`, inconsistent dedents), so for it the program must compile
                    continue
                n_nocompile += 0 if cr['ok'] else 1
                if _empty_logical_line(r['toks']):
                    n_artefact += 1
                    continue        # reference artefact, see _empty_logical_line
                nacc_ref += 1
                tr = token_pair(len(traces) + 1, text, v, r['toks'])
                tr['origin'] = origin
                traces.append(tr)
        slim = [{k: t[k] for k in ('id', 'kind', 'v312', 'cpy', 'par', 'empty', 'praised', 'ff', 'bs', 'bk')} for t in traces]
        acc = 0
        rejects = []
        for i in range(0, len(slim), 1500):
            a, rej, res = _rel.run_relational(scratch.sub('r%d' % i), slim[i:i + 1500])
            acc += a
            rejects += rej
            out.add('states', res.distinct)
            out.add('transitions', res.generated)
        by = {t['id']: t for t in traces}
        for r in rejects:
            t = by[r[1]]
            out.violation(r[3], 'Relational.' + r[3], {'text': t['text'][:400], 'version': t['ver'], 'origin': t['origin']},
                          {'kind': 'tokens', 'text': t['text'], 'version': t['ver']})
        out.cov(evaluations=len(traces), distinct_nontrivial=len({(t['text'], t['ver']) for t in traces if len(t['cpy']) > 3}),
                traces_validated_against_impl=acc, reference_accepted=nacc_ref, reference_artefacts_skipped=n_artefact, tokenizable_but_not_compilable=n_nocompile,
                versions=versions,
                rule='programs = every numeric / string-literal shape (TLC Strings over two literal alphabets, <= 4/5 symbols, as `x = <lit>`) + stdlib chunks of the judging interpreter and their token-level mutations + rendered ParserB '
                     'sentences (two spellings), kept iff interpreter V compiles them and its tokenize accepts them without ERRORTOKEN; one (CPython, parso) token '
                     'stream pair per program; non-trivial = more than 3 reference tokens; distinct by (text, version)')
        for t in traces[:2]:
            out.sample({'text': t['text'][:200], 'version': t['ver'], 'origin': t['origin']})
        out.assumptions += ['reference = tokenize.generate_tokens of CPython %s' % sorted(set(map(oracle.judge_version, versions))),
                            'f-strings are compared by start position only',
                            'programs containing a bare \\r are skipped: tokenize (readline based) does not split lines there']
    finally:
        scratch.cleanup()
    return out


def replay(path):
    import json
    d = json.load(open(path))['replay']
    tr = record.token_trace(1, d['text'], d['version'])
    print(repr(d['text']))
    print([(x['t'], ''.join(map(chr, x['s'])), x['l'], x['c']) for x in tr['toks']])
    return 0
