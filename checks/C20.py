"""C20 - the PEP 8 checker never fails and reports well-formed, stable issues (A-spec Issues, kind "pep8"):
four configurations (default, 2-space indentation, tab indentation, 20-character lines), the same text through
three provenances (fresh parse, incremental re-parse, pickle round trip)."""
from checks import _issues

PROP = 'C20'


def boundary_lines():
    """line-length boundary family: code padded to every length around both configured maxima (79 and 20), followed
    by every comment shape (none, bare '#', '#' + blanks, one word, long URL) and line ending"""
    from harness.common import VERSIONS
    out = []
    comments = ['', '#', '#  ', '#x', '# word', '# two words', '# http://example.com/' + 'a' * 30, '#' + ' ' * 30]
    heads = ['x = 1', 'value = compute()', '', 'def f(a): return a', 'foo(bar,']
    k = 0
    for mx in (20, 79):
        for target in range(mx - 3, mx + 4):
            for h in heads:
                if len(h) > target:
                    continue
                for c in comments:
                    for tail in ('\n', '', '\ny = 2\n'):
                        out.append((h + ' ' * (target - len(h)) + c + tail, VERSIONS[k % 9]))
                        k += 1
    return out


def run(tier):
    return _issues.run_issues(PROP, 'pep8', tier, 80000 if tier == 'thorough' else 12000,
                              cfgs=('', 'i2', 'tab', 'short'), provenance=True, extra_every_cfg=boundary_lines())


replay = _issues.replay
