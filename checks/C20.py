"""C20 - the PEP 8 checker never fails and reports well-formed, stable issues (A-spec Issues, kind "pep8"):
four configurations (default, 2-space indentation, tab indentation, 20-character lines), the same text through
three provenances (fresh parse, incremental re-parse, pickle round trip)."""
from checks import _issues

PROP = 'C20'


def run(tier):
    return _issues.run_issues(PROP, 'pep8', tier, 80000 if tier == 'thorough' else 12000,
                              cfgs=('', 'i2', 'tab', 'short'), provenance=True)


replay = _issues.replay
