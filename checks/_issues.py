"""Common driver for C13 / C20: Issues A-spec evaluated by TLC on real issue lists."""
import random

from checks import _parserb
from harness import pipeline, texts
from harness.common import Scratch, seed
from harness.result import Outcome


def run_issues(prop, kind, tier, budget, cfgs=('',), provenance=False, extra_every_cfg=(), semctx=False):
    out = Outcome(prop, tier, 'model_checking')
    rng = random.Random(seed() * 13 + len(prop) + ord(prop[-1]))
    behs = _parserb.generate(out, tier, prop, envs=('broken', 'tokenv'), num=200 if tier == 'quick' else 1500)
    scratch = Scratch(prop)
    try:
        items = texts.standard_items(tier, rng, scratch, out, budget)
        n = len(items)
        for b in behs:
            if b['text'] is not None:
                n += 1
                items.append([n, b['text'], b['version'], 'parserb:' + b['env']])
        if semctx:
            # SemCtx (context stack, statement) programs: the inputs the semantic rules were written for, in every
            # context; with the provenance clause each is also reached through an incremental re-parse
            from checks import _semctx
            from harness.common import VERSIONS
            pairs, r0 = _semctx.enumerate_programs(scratch.sub('sem'), 3 if tier == 'thorough' else 2)
            out.add('states', r0.distinct)
            out.add('transitions', r0.generated)
            shallow = sorted({t for t in (_semctx.render(c, st) for c, st in pairs if len(c) <= 1) if t is not None})
            sem = sorted({t for t in (_semctx.render(c, st) for c, st in pairs) if t is not None} - set(shallow))
            if tier == 'quick' and len(sem) > 4000:
                sem = rng.sample(sem, 4000)         # every (context, statement) pair of depth <= 1 is always kept
            sem = shallow + sem
            for j, t in enumerate(sem):
                n += 1
                items.append([n, t, VERSIONS[(j + seed()) % len(VERSIONS)], 'semctx'])
            out.cov(semctx_programs=len(sem))
        tot = {'acc': 0, 'n': 0, 'nontriv': 0}
        for ci, cfg in enumerate(cfgs):
            its = items if len(cfgs) == 1 else [it for j, it in enumerate(items) if j % len(cfgs) == ci]
            its = its + [[10 ** 6 + j, t, v, 'boundary'] for j, (t, v) in enumerate(extra_every_cfg)]
            res = pipeline.validate(its, 'harness.recorders.rec_issues',
                                    {'kind': kind, 'cfg': cfg, 'provenance': provenance}, scratch.sub('i%d' % ci),
                                    ['TokenStream', 'Issues'], 'Issues', wrap_extra={})
            out.add('states', res['states'])
            out.add('transitions', res['generated'])
            tot['acc'] += res['accepted']
            tot['n'] += res['n']
            tot['nontriv'] += res['nontrivial']
            for rej in res['rejected']:
                r = rej['reject']
                tr = rej['trace'] or {}
                exc = (tr.get('exc') or '').split(';')[0]
                key = r[3] + ('|' + exc if exc else '')
                out.violation(key, 'Issues.' + r[3],
                              {'reject': r, 'text': tr.get('text'), 'version': tr.get('ver'), 'exc': exc, 'config': cfg},
                              {'kind': kind, 'cfg': cfg, 'trace': tr})
            for s in res['samples'][:2]:
                out.sample(s)
        out.cov(traces_validated_against_impl=tot['acc'], evaluations=tot['n'], distinct_nontrivial=tot['nontriv'],
                rule='texts = the standard text set + renderings of ParserB behaviours (sentences with 2 errors, arbitrary '
                     'token streams: the recovered shapes rule code was never written against); for each the real issue '
                     'listing is called twice on the real tree; non-trivial = at least one issue was reported')
        out.assumptions += ['TLC; recorder logs values only (message prefix = text before the first ": ")']
    finally:
        scratch.cleanup()
    return out


def replay(path):
    import json
    from harness import recorders
    d = json.load(open(path))
    t = d['replay']['trace']
    tr = recorders.rec_issues([[1, t['text'], t['ver'], 'replay']],
                              {'kind': d['replay']['kind'], 'cfg': d['replay'].get('cfg', ''), 'provenance': True})
    print(repr(t['text']), t['ver'])
    for x in tr:
        print('raised' if x['raised'] else x['calls'][:1], x['exc'])
    return 0
