"""C12 - no false syntax errors: programs CPython accepts produce no issues.

Programs: every (context stack, statement) pair of spec SemCtx (TLC-enumerated, depth <= 2 quick / 3 thorough)
rendered from templates, stdlib chunks of interpreter V, rendered ParserB sentences - each kept iff interpreter V's
compile() accepts it.  Relation NoFalseErrors (spec Relational, evaluated by TLC): (a) if interpreter 3.8 accepts it
as well ("syntax common to V and the last LL(1) CPython") -> no error node and no issue; (b) no error node -> no
issue."""
import random

from checks import _rel, _semctx
from harness import oracle, record
from harness.common import Scratch, VERSIONS, seed
from harness.result import Outcome

PROP = 'C12'


def observe(tid, text, v, v38ok, origin):
    tr = {'id': tid, 'kind': 'syntax', 'v38ok': v38ok, 'haserr': False, 'nissues': 0, 'raised': False, 'text': text,
          'ver': v, 'origin': origin, 'msg': ''}
    try:
        g, m = record.parse(text, v)
        tr['haserr'] = any(n.type in ('error_node', 'error_leaf') for n in record.walk(m))
        iss = list(g.iter_errors(m))
        tr['nissues'] = len(iss)
        tr['msg'] = iss[0].message if iss else ''
    except Exception as e:  # noqa
        tr['raised'] = True
        tr['msg'] = record.exc_key(e)
    return tr


def run(tier):
    out = Outcome(PROP, tier, 'exploration')
    rng = random.Random(seed())
    versions = VERSIONS if tier == 'thorough' else sorted({rng.choice(VERSIONS[:4]), rng.choice(VERSIONS[4:7]),
                                                          rng.choice(VERSIONS[7:])})
    scratch = Scratch(PROP)
    try:
        pairs, res = _semctx.enumerate_programs(scratch.sub('sem'), 3 if tier == 'thorough' else 2)
        out.add('states', res.distinct)
        out.add('transitions', res.generated)
        shallow = sorted({t for t in (_semctx.render(c, st) for c, st in pairs if len(c) <= 1) if t is not None})
        sem = sorted({t for t in (_semctx.render(c, st) for c, st in pairs) if t is not None} - set(shallow))
        if tier == 'quick' and len(sem) > 5000:
            sem = rng.sample(sem, 5000)            # every (context, statement) pair of depth <= 1 is always kept
        sem = shallow + sem
        progs = _rel.programs(out, tier, PROP, versions, 1500 if tier == 'thorough' else 150, rng, literals=True)
        traces = []
        accepted = 0
        for v in versions:
            jv = oracle.judge_version(v)
            plist = [(t, 'semctx') for t in sem] + progs[v]
            texts = [t for t, _ in plist]
            okv = oracle.run_script(jv, oracle.COMPILE, texts)
            keep = [i for i, r in enumerate(okv) if r['ok']]
            ok38 = oracle.run_script('3.8', oracle.COMPILE, [texts[i] for i in keep]) if '3.8' in oracle.INTERPRETERS \
                else [{'ok': False}] * len(keep)
            for i, r38 in zip(keep, ok38):
                accepted += 1
                traces.append(observe(len(traces) + 1, texts[i], v, r38['ok'], plist[i][1]))
        slim = [{k: t[k] for k in ('id', 'kind', 'v38ok', 'haserr', 'nissues', 'raised')} for t in traces]
        acc = 0
        rejects = []
        for i in range(0, len(slim), 20000):
            a, rej, r2 = _rel.run_relational(scratch.sub('r%d' % i), slim[i:i + 20000])
            acc += a
            rejects += rej
            out.add('states', r2.distinct)
            out.add('transitions', r2.generated)
        by = {t['id']: t for t in traces}
        for r in rejects:
            t = by[r[1]]
            msg = t['msg'].replace('SyntaxError: ', '').replace('IndentationError: ', '')
            msg = __import__('re').sub(r"name '[^']+'", "name '<id>'", msg)
            # inside an f-string replacement field (>= 3.9) the same rules prefix their message with "f-string: ": the
            # cause is the rule, so the key is the message without that prefix
            if msg.startswith('f-string: ') and not msg.startswith('f-string: expressions nested'):
                msg = msg[len('f-string: '):]
            shape = _shape(t['text'])
            if r[3] == 'CommonSyntaxParsesWithoutErrorNodes':
                key = '%s|%s' % (r[3], shape)
            elif shape in ('backslash-continuation-at-line-start', 'formfeed-in-indentation'):
                # a layout that parso reads differently from CPython (known findings): whatever issue follows from
                # the different block structure has that cause
                key = 'CommonSyntaxParsesWithoutErrorNodes|%s' % shape
            else:
                key = '%s|%s' % (r[3], msg)
            out.violation(key, 'Relational.' + r[3],
                          {'text': t['text'][:300], 'version': t['ver'], 'origin': t['origin'], 'first_issue': t['msg']},
                          {'kind': 'syntax', 'text': t['text'], 'version': t['ver']})
        out.cov(evaluations=len(traces), distinct_nontrivial=len({(t['text'], t['ver']) for t in traces}),
                traces_validated_against_impl=acc, reference_accepted=accepted, semctx_programs=len(sem), versions=versions,
                rule='programs = SemCtx (every context stack of depth <= 2/3 over 14 frame kinds x %d statement templates, '
                     'TLC-enumerated) + stdlib chunks and mutations + ParserB sentences; kept iff compile() of interpreter V '
                     'accepts; distinct by (text, version); every kept program is non-trivial by construction' % len(_semctx.STMTS))
        for t in traces[::max(1, len(traces) // 3)][:3]:
            out.sample({'text': t['text'][:200], 'version': t['ver'], 'origin': t['origin'], 'v38ok': t['v38ok']})
        out.assumptions += ['reference = compile(src, "exec") of CPython V (3.14 judged by the newest interpreter) and of 3.8']
    finally:
        scratch.cleanup()
    return out


def _shape(text):
    import re
    if re.search(r'(?m)^[ \t]*\f', text):
        return 'formfeed-in-indentation'
    if re.search(r'(?m)^[ \t]*\\\r?\n', text):
        return 'backslash-continuation-at-line-start'
    return 'other'


def replay(path):
    import json
    d = json.load(open(path))['replay']
    print(repr(d['text']), d['version'])
    print(observe(1, d['text'], d['version'], True, 'replay'))
    return 0
