"""C08 - the parser generator is faithful to the grammar text and truly LL(1).

Spec Pgen (with Ebnf): bisimulation of every real DFA with the position automaton of the rule's text
(language equality for every rule and state), exact token->plan tables from an explicit FIRST fixpoint,
no token claimed twice, and the verdict class (ok / ambiguous / left recursion) for every small grammar
enumerated by spec GrammarEnum.  All tables are re-exported from the live objects of the current tree."""
import concurrent.futures
import copy
import json
import random
import re

from harness import ebnf, pgen_export, tlc
from harness.common import NCPU, Scratch, VERSIONS, seed
from harness.result import Outcome

PROP = 'C08'
INVS = ['SameFinal', 'SameArcs', 'Deterministic', 'TargetsInRule', 'PlansExact', 'NoTokenTwice',
        'FixpointReached', 'VerdictAgrees']
CFG = 'SPECIFICATION Spec\n' + ''.join('INVARIANT %s\n' % i for i in INVS)

PROBES = [
    # hand-made probes for constructs the enumeration alphabet does not contain
    "r1: 'x' r2 | \"x\" 'c'\nr2: 'b'\n",          # the same reserved string written with both quote styles
    "r1: ('a'*)* 'b'\n",
    "r1: ('a' | 'b')+ ['c'] r1 | 'd'\n",
    "r1: [['a'] 'b'] 'c'\n",
    "r1: (['a'])+ 'b'\n",
    "r1: 'a' (r2 | 'b')* 'c'\nr2: 'd' ['e']\n",
    "r1: r2 'x' | r3 'y'\nr2: 'a'\nr3: 'a'\n",
    "r1: r2 'x'\nr2: r3\nr3: r1 | 'a'\n",
    "r1: NAME | NUMBER NAME\n",
    "r1: 'a' | 'a' 'b'\n",
]


_SPELL = {'a': ["'a'", '"a"', "'\\x61'", '"\\u0061"', "'\\141'"], 'b': ["'b'", '"b"', "'\\x62'", '"\\u0062"', "'\\142'"],
          'c': ["'c'", '"c"', "'\\x63'", '"\\u0063"', "'\\143'"]}


def _respell(text, rng):
    import re
    return re.sub(r"'([abc])'", lambda m: rng.choice(_SPELL[m.group(1)]), text)


def run_pgen(run_dir, records, workers=2, timeout=900):
    tlc.prepare(run_dir, ['Ebnf', 'Pgen'], {'gs.json': pgen_export.to_json(records)})
    res = tlc.run(run_dir, 'Pgen', CFG, workers=workers, timeout=timeout)
    bad = None
    if res.violated:
        m = re.search(r'/\\ g = (\d+)', res.out)
        gi = int(m.group(1)) if m else 0
        m2 = re.search(r'/\\ rule = (\d+)', res.out)
        bad = {'invariant': res.violated[0], 'g': gi, 'rule': int(m2.group(1)) if m2 else 0}
    return res, bad


def enum_grammars(run_dir, nrules, depth, deep, family='all'):
    tlc.prepare(run_dir, ['Ebnf', 'GrammarEnum'])
    cfg = 'SPECIFICATION Spec\nCONSTANTS NRules = %d\nDepth = %d\nDeepRules = %d\nFamily = "%s"\n' % (nrules, depth, deep, family)
    res = tlc.run(run_dir, 'GrammarEnum', cfg, workers=4, timeout=1200)
    out = []
    for m in re.finditer(r'^<<"G", <<(.*)>>>>$', res.out, re.M):
        parts = re.findall(r'"((?:[^"\\]|\\.)*)"', m.group(1))
        out.append(''.join('r%d: %s\n' % (i + 1, t) for i, t in enumerate(parts)))
    return out, res


def _records(texts):
    recs = []
    for t in texts:
        rec, _ = pgen_export.grammar_record(t)
        rec['text'] = t
        recs.append(rec)
    return recs


def _job(args):
    run_dir, texts, tag = args
    recs = _records(texts)
    res, bad = run_pgen(run_dir, recs, workers=2)
    verd = {}
    for r in recs:
        verd[r['verdict']] = verd.get(r['verdict'], 0) + 1
    if bad:
        bad['text'] = recs[bad['g'] - 1]['text'] if 0 < bad['g'] <= len(recs) else None
        bad['real_verdict'] = recs[bad['g'] - 1]['verdict'] if 0 < bad['g'] <= len(recs) else None
        bad['tag'] = tag
    return {'distinct': res.distinct, 'generated': res.generated, 'bad': bad, 'n': len(recs), 'verdicts': verd,
            'tables': sum(1 for r in recs if r['verdict'] == 'ok'), 'tag': tag}


def binding(run_dir):
    """corrupt the exported tables of one small grammar in four ways; each must violate the expected invariant"""
    text = "r1: 'a' (r2 | 'b')* 'c'\nr2: 'd' ['e']\n"
    base = _records([text])[0]
    want = {}
    v = copy.deepcopy(base); v['rules'][0]['dfa'][1]['arcs'][0][1] = 1; want['retarget-arc'] = (v, '')
    v = copy.deepcopy(base); v['rules'][1]['dfa'][-1]['final'] = not v['rules'][1]['dfa'][-1]['final']
    want['flip-final'] = (v, 'SameFinal')
    v = copy.deepcopy(base); del v['rules'][0]['dfa'][1]['plans'][0]; want['drop-plan'] = (v, 'PlansExact')
    v = copy.deepcopy(base)
    for st in v['rules'][0]['dfa']:
        for p in st['plans']:
            if p[2]:
                p[2][0][1] = 1
    want['wrong-push'] = (v, 'PlansExact')
    v = copy.deepcopy(base); v['verdict'] = 'ambiguous'; want['wrong-verdict'] = (v, 'VerdictAgrees')
    got = {}
    ok = True
    res0, bad0 = run_pgen(run_dir, [base], workers=1, timeout=120)
    ok = ok and bad0 is None
    for name, (rec, inv) in want.items():
        res, bad = run_pgen(run_dir, [rec], workers=1, timeout=120)
        got[name] = bad['invariant'] if bad else None
        ok = ok and bad is not None and bad['invariant'].startswith(inv)
    return {'ok': ok, 'violated': got}


def run(tier):
    out = Outcome(PROP, tier, 'model_checking')
    rng = random.Random(seed())
    scratch = Scratch(PROP)
    try:
        jobs = []
        for v in VERSIONS:
            jobs.append((scratch.sub('v' + v.replace('.', '')), [pgen_export.grammar_text(v)], 'shipped:' + v))
        # enumerated grammars
        g2, r2 = enum_grammars(scratch.sub('enum2'), 2, 1, 2)
        gd, rd = enum_grammars(scratch.sub('enumd'), 2, 2, 1)
        gl, rl = enum_grammars(scratch.sub('enuml'), 1, 2, 1, 'loops')
        out.add('states', r2.distinct + rd.distinct + rl.distinct)
        out.add('transitions', r2.generated + rd.generated + rl.generated)
        enum_total = len(g2) + len(gd) + len(gl)
        out.cov(loop_grammars=len(gl))
        if tier == 'quick':
            gd_use = rng.sample(gd, min(len(gd), 6000))
            g3_use = []
        else:
            gd_use = gd
            g3, r3 = enum_grammars(scratch.sub('enum3'), 3, 1, 3)
            out.add('states', r3.distinct)
            out.add('transitions', r3.generated)
            enum_total += len(g3)
            g3_use = g3
        # the same reserved strings written in other spellings (other quote, hex / unicode / octal escape), occurrence by
        # occurrence: a terminal is its VALUE, so every spelling must be the same token for conflicts and tables
        sp = []
        for t in rng.sample(g2, min(len(g2), 700 if tier == 'quick' else 5000)) + gl[:200]:
            v = _respell(t, rng)
            if v != t:
                sp.append(v)
        out.cov(respelled_grammars=len(sp))
        allg = g2 + gd_use + g3_use + gl + sp + PROBES
        size = 3000
        for i in range(0, len(allg), size):
            jobs.append((scratch.sub('e%d' % i), allg[i:i + size], 'enumerated'))
        results = []
        with concurrent.futures.ProcessPoolExecutor(max_workers=max(2, NCPU // 2)) as ex:
            for r in ex.map(_job, jobs):
                results.append(r)
        verd = {}
        for r in results:
            out.add('states', r['distinct'])
            out.add('transitions', r['generated'])
            out.add('traces_validated_against_impl', r['tables'])
            out.add('evaluations', r['n'])
            for k, v in r['verdicts'].items():
                verd[k] = verd.get(k, 0) + v
            if r['bad']:
                b = r['bad']
                key = '%s|%s' % (b['invariant'], b['tag'] if b['tag'].startswith('shipped') else
                                 ('quote-variants' if b['text'] and '"' in b['text'] else 'enumerated'))
                out.violation(key, 'Pgen.' + b['invariant'],
                              {'grammar': (b['text'] or '')[:300], 'real_verdict': b['real_verdict'], 'rule_index': b['rule'],
                               'source': b['tag']},
                              {'kind': 'grammar', 'text': b['text'], 'invariant': b['invariant']})
        out.cov(generator_verdicts=verd, shipped_grammars=len(VERSIONS), enumerated_space=enum_total,
                exhaustive=(tier == 'thorough'),
                distinct_nontrivial=len(set(allg)) + len(VERSIONS),
                rule='grammars = the 9 shipped grammar files (every rule, DFA state and plan entry, exported from the '
                     'live objects) + every grammar TLC enumerates from GrammarEnum (2 rules depth<=1: all; 2 rules with '
                     'one depth-2 rule: all in thorough, 6000 sampled in quick; 3 rules depth<=1: thorough only; every loop around '
                     'a nullable body of depth <= 2) + 10 '
                     'hand-made probes; each goes through the real generate_grammar and its verdict/tables are checked '
                     'by TLC against Pgen; traces_validated = grammars whose generated tables were validated')
        for t in [g2[7], gd_use[3], PROBES[2]]:
            out.sample({'grammar': t})
        bind = binding(scratch.sub('bind'))
        out.cov(binding_demonstrated=bind)
        if not bind['ok']:
            out.drift.append('binding self-test failed: %s' % bind)
        out.assumptions += ['the independent EBNF reader (harness/ebnf.py) reads the grammar text correctly',
                            'nullable rules are outside the property ("LL(1) in this sense")']
    finally:
        scratch.cleanup()
    return out


def replay(path):
    d = json.load(open(path))
    text = d['replay']['text']
    print(text)
    print('real generator verdict:', pgen_export.real_generate(text)[0])
    s = Scratch('C08r')
    try:
        res, bad = run_pgen(s.path, _records([text]), workers=1)
        print('Pgen:', bad or 'no invariant violated')
    finally:
        s.cleanup()
    return 0
