"""Common driver for the properties decided by clause groups of the A-spec Tree."""
import random

from harness import pipeline, texts
from harness.common import Scratch, seed
from harness.result import Outcome

RULE = ('texts = TLC-enumerated strings over three alphabets (Strings) + class walks + token-pool strings + '
        'stdlib chunks and token-level mutations%s; each is parsed by the real parser (all 9 grammar versions in '
        'rotation) and the serialised tree is validated by TLC against Tree.%s; non-trivial = the tree has an '
        'interior node besides the root or an error leaf; distinct by (text, version)')


def run_groups(prop, groups, tier, rec_opts, budget, extra_items=None, extra_generators=(), note=''):
    out = Outcome(prop, tier, 'model_checking')
    rng = random.Random(seed() * 7919 + sum(map(ord, prop)))
    scratch = Scratch(prop)
    try:
        items = texts.standard_items(tier, rng, scratch, out, budget, extra_generators)
        if extra_items:
            base = len(items)
            for i, (text, ver, origin) in enumerate(extra_items(rng)):
                items.append([base + i + 1, text, ver, origin])
        opts = dict(rec_opts)
        opts['seed'] = seed()
        res = pipeline.validate(items, 'harness.recorders.rec_trees', opts, scratch.sub('tree'),
                                ['TokenStream', 'Tree', 'TreeTrace'], 'TreeTrace',
                                wrap_extra={'groups': groups})
        for rej in res['rejected']:
            r = rej['reject']
            tr = rej['trace'] or {}
            if r[2] != 'ALL' and r[2] not in groups:
                continue
            exc = tr.get('exc', '')
            key = r[3] + ('|' + exc.split(';')[0] if exc else '')
            out.violation(key, 'Tree.%s.%s' % (r[2], r[3]),
                          {'reject': r, 'text': tr.get('text'), 'version': tr.get('ver'), 'exc': exc},
                          {'kind': 'tree', 'groups': groups, 'opts': opts, 'trace': tr})
        out.add('states', res['states'])
        out.add('transitions', res['generated'])
        out.cov(traces_validated_against_impl=res['accepted'], evaluations=res['n'],
                distinct_nontrivial=res['nontrivial'],
                rule=RULE % (note, '/'.join(groups)))
        for s in res['samples'][:5]:
            out.sample(s)
        out.assumptions += ['TLC and the JSON recorder layer are trusted; recorders log values only',
                            'positions: only \\n, \\r\\n, \\r are line breaks, a leading BOM has zero width']
    finally:
        scratch.cleanup()
    return out, res


def replay_tree(path):
    import json
    from harness import record
    d = json.load(open(path))
    t = d['replay']['trace']
    print('replaying', repr(t.get('text')), t.get('ver'), 'clause', d['clause'])
    g, m = record.parse(t['text'], t['ver'])
    print(m.dump())
    return 0
