"""C01 - lossless round trip: Tree.C01 clauses (LeavesTile, NodeCodeIsSlice, RootCodeIsInput) on str and bytes input."""
from checks import _tree
from harness import pipeline  # noqa

PROP = 'C01'


def run(tier):
    budget = 120000 if tier == 'thorough' else 24000
    out, res = _tree.run_groups(PROP, ['C01'], tier, {'nav': False, 'parts': False, 'posq': 0, 'code_budget': 40000},
                                budget)
    # bytes input: the same clause group on parse(text.encode()) (decoding itself is C15)
    import random
    from harness import texts
    from harness.common import Scratch, seed
    rng = random.Random(seed() + 11)
    scratch = Scratch(PROP + 'b')
    try:
        from harness.result import Outcome
        tmp = Outcome(PROP, tier, 'model_checking')
        items = [it for it in texts.standard_items(tier, rng, scratch, tmp, budget // 4)
                 if 'coding' not in it[1] and _encodable(it[1])]
        r2 = pipeline.validate(items, 'harness.recorders.rec_trees',
                               {'nav': False, 'parts': False, 'posq': 0, 'code_budget': 40000, 'bytes': True},
                               scratch.sub('tree'), ['TokenStream', 'Tree', 'TreeTrace'], 'TreeTrace',
                               wrap_extra={'groups': ['C01']})
        for rej in r2['rejected']:
            r = rej['reject']
            tr = rej['trace'] or {}
            out.violation('bytes:' + r[3], 'Tree.C01.%s (bytes input)' % r[3],
                          {'reject': r, 'text': tr.get('text'), 'version': tr.get('ver'), 'exc': tr.get('exc')},
                          {'kind': 'tree', 'bytes': True, 'trace': tr})
        out.add('states', r2['states'])
        out.add('transitions', r2['generated'])
        out.add('traces_validated_against_impl', r2['accepted'])
        out.add('evaluations', r2['n'])
        out.cov(bytes_inputs=r2['n'])
    finally:
        scratch.cleanup()
    return out


def _encodable(s):
    try:
        s.encode('utf-8')
        return True
    except UnicodeEncodeError:
        return False


replay = _tree.replay_tree
