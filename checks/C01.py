"""C01 - lossless round trip: Tree.C01 clauses (LeavesTile, NodeCodeIsSlice, RootCodeIsInput) on str and bytes input."""
from checks import _tree
from harness import pipeline  # noqa

PROP = 'C01'


def run(tier):
    budget = 120000 if tier == 'thorough' else 24000
    out, res = _tree.run_groups(PROP, ['C01'], tier, {'nav': False, 'parts': False, 'posq': 0, 'code_budget': 40000},
                                budget)
    # token half of C01 (every token becomes exactly one leaf): TokenStream.Tiles on the complete f-string and
    # indentation enumerations, which are too many for tree validation
    from harness import inputs as _inputs, pipeline as _pl
    from harness.common import Scratch as _S, VERSIONS as _V
    sc = _S(PROP + 't')
    try:
        fstr, r1 = _inputs.tlc_strings(sc.sub('f'), 4, _inputs.FSTR_ALPHABET)
        ind, r2 = _inputs.tlc_strings(sc.sub('i'), 4 if tier == 'quick' else 5, _inputs.INDENT_ALPHABET)
        starts = ['f"', "f'", 'f"""', "rf'"]
        titems = [[i + 1, starts[i % 4] + s, _V[i % 9], 'fstrings'] for i, s in enumerate(fstr)]
        titems += [[len(titems) + i + 1, ('if a:\n  b\n' if i % 2 else '') + s, _V[i % 9], 'indstrings'] for i, s in enumerate(ind)]
        tk = _pl.validate(titems, 'harness.recorders.rec_tokens', {}, sc.sub('tok'), ['TokenStream', 'TokTrace'], 'TokTrace',
                          batch_name='traces.json', specname='SpecWhole')
        out.add('states', r1.distinct + r2.distinct + tk['states'])
        out.add('transitions', r1.generated + r2.generated + tk['generated'])
        out.add('traces_validated_against_impl', tk['accepted'])
        out.add('evaluations', tk['n'])
        out.cov(token_traces=tk['n'])
        for rej in tk['rejected']:
            r = rej['reject']
            if not r[3].startswith(('Tiles', 'NeverFails', 'OneEndmarker')):
                continue                      # positions / purity belong to C03 / C09
            tr = rej['trace'] or {}
            out.violation('tokens:' + r[3], 'TokenStream.' + r[3], {'reject': r, 'text': tr.get('text'), 'version': tr.get('ver')},
                          {'kind': 'tokens', 'trace': tr})
    finally:
        sc.cleanup()
    # bytes input: the same clause group on parse(text.encode()) (decoding itself is C15)
    import random
    from harness import texts
    from harness.common import Scratch, seed
    rng = random.Random(seed() + 11)
    scratch = Scratch(PROP + 'b')
    try:
        from harness.result import Outcome
        tmp = Outcome(PROP, tier, 'model_checking')
        items = [it for it in texts.standard_items(tier, rng, scratch, tmp, budget // 4)
                 if 'coding' not in it[1] and _encodable(it[1])]
        r2 = pipeline.validate(items, 'harness.recorders.rec_trees',
                               {'nav': False, 'parts': False, 'posq': 0, 'code_budget': 40000, 'bytes': True},
                               scratch.sub('tree'), ['TokenStream', 'Tree', 'TreeTrace'], 'TreeTrace',
                               wrap_extra={'groups': ['C01']})
        for rej in r2['rejected']:
            r = rej['reject']
            tr = rej['trace'] or {}
            out.violation('bytes:' + r[3], 'Tree.C01.%s (bytes input)' % r[3],
                          {'reject': r, 'text': tr.get('text'), 'version': tr.get('ver'), 'exc': tr.get('exc')},
                          {'kind': 'tree', 'bytes': True, 'trace': tr})
        out.add('states', r2['states'])
        out.add('transitions', r2['generated'])
        out.add('traces_validated_against_impl', r2['accepted'])
        out.add('evaluations', r2['n'])
        out.cov(bytes_inputs=r2['n'])
    finally:
        scratch.cleanup()
    return out


def _encodable(s):
    try:
        s.encode('utf-8')
        return True
    except UnicodeEncodeError:
        return False


replay = _tree.replay_tree
