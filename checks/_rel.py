"""Shared machinery of the reference-relational properties C10, C12, C14: programs, oracle calls, batches."""
import json
import random

from checks import _parserb
from harness import inputs, oracle, parserb, tlc
from harness.common import Scratch, VERSIONS, chunks, seed


def programs(out, tier, prop, versions, per_version, rng, want_generated=True, literals=False):
    """-> {version: [(text, origin)]}: stdlib chunks of the judging interpreter + ParserB sentences + mutations"""
    progs = {v: [] for v in versions}
    for v in versions:
        jv = oracle.judge_version(v)
        ch = inputs.corpus_chunks(jv if jv in inputs.STDLIB else '3.12', per_version // 12 + 2, rng, max_chars=1200,
                                  per_file=14)
        rng.shuffle(ch)
        for c in ch[:per_version]:
            progs[v].append((c, 'stdlib'))
        for c in ch[:per_version // 3]:
            progs[v].append((inputs.mutate(c, rng), 'stdlib-mutated'))
    if want_generated and literals:
        sc = Scratch(prop + 'lit')
        try:
            n = 5 if tier == 'thorough' else 4
            nums, r1 = inputs.tlc_strings(sc.sub('n'), n, inputs.NUM_ALPHABET)
            strs, r2 = inputs.tlc_strings(sc.sub('s'), n, inputs.STRLIT_ALPHABET)
            out.add('states', r1.distinct + r2.distinct)
            out.add('transitions', r1.generated + r2.generated)
            shapes, r3 = inputs.string_literals(sc.sub('l'), 3 if tier == 'quick' else 4)
            out.add('states', r3.distinct)
            out.add('transitions', r3.generated)
            # layout strings: all of <= 4 symbols (<= 5 in thorough) + a sample of the next length
            nl = 4          # 13^4 = 28 561 strings; the 5-symbol ones are sampled (thorough: 60 000)
            lay, r4 = inputs.tlc_strings(sc.sub('y'), nl + 1, inputs.LAYOUT_ALPHABET)
            out.add('states', r4.distinct)
            out.add('transitions', r4.generated)
            symlen = __import__('re').compile('|'.join(__import__('re').escape(a) for a in
                                                       sorted(inputs.LAYOUT_ALPHABET, key=len, reverse=True)))
            short = [t for t in lay if len(symlen.findall(t)) <= nl]
            longer_lay = [t for t in lay if len(symlen.findall(t)) > nl]
            lay = short + rng.sample(longer_lay, min(len(longer_lay), 3000 if tier == 'quick' else 60000))
            out.cov(layout_strings=len(lay), layout_exhaustive_upto=nl)
            if tier == 'quick' and len(shapes) > 30000:
                shapes = rng.sample(shapes, 30000)
            lits = ['x = %s\n' % s for s in nums if s] + ['x = %s\n' % s for s in strs if s] + shapes
            lits += [t if t.endswith('\n') else t + '\n' for t in lay if t]
            for v in versions:
                for t in inputs.escape_literals():
                    progs[v].append((t, 'escape-literals'))
            if tier == 'quick':
                longer = [''.join(rng.choice(inputs.NUM_ALPHABET) for _ in range(rng.randint(5, 8))) for _ in range(20000)]
                lits += ['x = %s\n' % s for s in longer]
            for i, t in enumerate(lits):
                progs[versions[i % len(versions)]].append((t, 'literals'))
        finally:
            sc.cleanup()
    if want_generated:
        behs = _parserb.generate(out, tier, prop, envs=('valid',), versions=versions[:2] if tier == 'quick' else versions,
                                 num=300 if tier == 'quick' else 3000, exhaustive_valid=0)
        for b in behs:
            if b['text'] is not None and b['status'] == 'done' and not b['err']:
                t2 = parserb.render(b['labels'], rng=rng, vary=True)
                progs[b['version']].append((b['text'], 'grammar-sentence'))
                if t2 and t2 != b['text']:
                    progs[b['version']].append((t2, 'grammar-sentence'))
    return progs


def run_relational(scratch_dir, traces):
    tlc.prepare(scratch_dir, ['Relational'], {'batch.json': json.dumps({'traces': traces})})
    res = tlc.run(scratch_dir, 'Relational', 'SPECIFICATION Spec\n', workers=1, timeout=900, heap='4g')
    summ = res.printed('SUMMARY')
    if not summ:
        raise tlc.TLCError('Relational did not finish: ' + res.out[-1500:])
    return summ[-1][1], res.printed('REJECT'), res
