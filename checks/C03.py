"""C03 - positions are true: Tree.C03 clauses (LeafStartTrue, LeafEndTrue, NodeStarts/EndsAt..., PrefixStartIsPrevEnd,
ModuleEndIsEndOfInput, LeavesOrdered) with positions recomputed from the input text by PosTable."""
from checks import _tree

PROP = 'C03'


def multiline_texts(rng):
    """weighted towards multi-line tokens, mixed newlines, BOM, f-string continuations, zero-width error leaves"""
    from harness.common import VERSIONS
    pieces = ['"""a\nb"""', "'''x\r\ny'''", '"a\\\nb"', "'a\\\r\nb'", 'f"""{x}\n{y}"""', 'f"a\\\nb{x}"', '\r', '\r\n', '\n',
              '\ufeff', 'x', ' ', '    ', '\t', '(', ')', ':', 'if x', 'else', '\\\n', '\\\r', '#c', '"""', "'", 'f"{',
              '}', '\f', 'def f', 'y = 1', '  z', ' w', '$', '"unterminated\n', "f'{a\n", 'rb"""\n\n"""', '\x0c\n']
    for i in range(6000):
        n = rng.randint(1, 10)
        s = ''.join(rng.choice(pieces) for _ in range(n))
        if i % 3 == 0:
            s = '\ufeff' + s
        yield s, VERSIONS[i % 9], 'multiline-mix'


def run(tier):
    budget = 120000 if tier == 'thorough' else 24000
    out, res = _tree.run_groups(PROP, ['C03'], tier, {'nav': True, 'parts': False, 'posq': 0, 'code_budget': 0},
                                budget, extra_items=multiline_texts,
                                note=' + 6000 mixes of multi-line tokens, newline styles, BOM and f-string continuations')
    return out


replay = _tree.replay_tree
