"""C19 - trees survive serialisation, and refactoring is an exact text splice (Tree.C19 clauses evaluated by TLC:
the re-serialised tree after pickle / eval(dump(indent)) must equal the original's table field by field, dump()
must be identical for every indent style, Grammar.refactor must equal Splice(input, spans of the mapped nodes))."""
from checks import _tree

PROP = 'C19'


def run(tier):
    out, res = _tree.run_groups(PROP, ['C19'], tier,
                                {'nav': False, 'parts': False, 'posq': 0, 'code_budget': 20000, 'roundtrip': True,
                                 'refactors': 3}, 60000 if tier == 'thorough' else 9000,
                                note='; per tree: pickle round trip and one eval(dump(indent)) compared field by field, all 6 '
                                     'indent styles by dump identity, refactor with the empty map and 3 random maps of <= 3 '
                                     'pairwise disjoint nodes with replacement strings from a small pool')
    return out


replay = _tree.replay_tree
