"""C14 - scope, definition, parameter and import helpers agree with CPython's AST.

Programs: the binding-construct x target-shape x context matrix (spec Bindings, TLC-enumerated, rendered from
templates), SemCtx statements, and whole stdlib modules of the running interpreter - each kept iff CPython parses
it and parso parses it without error nodes.  For each, nine kinds of fact sets are extracted from parso's helpers
and from the ast (harness/facts.py); spec Relational.FactsVerdict (TLC) requires equality kind by kind.  Docstrings
written as concatenated / parenthesised / f-string literals are outside the claim."""
import json
import os
import random
import re
import sys

from checks import _rel, _semctx
from harness import facts, inputs, record, tlc
from harness.common import Scratch, seed
from harness.result import Outcome

PROP = 'C14'
VERSION = '%d.%d' % sys.version_info[:2]

TARGET = {'name': 't', 'attr': 'o.t', 'subscript': 'o[k]', 'starred': '*t, u', 'tuple': 't, u', 'list': '[t, u]',
          'paren': '(t)', 'nested': '(t, (u, [v, o.w])), z', 'attrchain': 'o.p.q.t', 'slice': 'o[1:2]'}
CONSTRUCT = {
    'assign': '{T} = val', 'chain': 'a = {T} = val', 'augassign': '{T} += val', 'annassign': '{T}: int = val',
    'annonly': '{T}: int', 'for': 'for {T} in it:\n    pass', 'asyncfor': 'async for {T} in it:\n    pass',
    'with': 'with cm as {T}:\n    pass', 'asyncwith': 'async with cm as {T}:\n    pass',
    'listcomp': 'r = [e for {T} in it]', 'setcomp': 'r = {{e for {T} in it}}', 'dictcomp': 'r = {{k: v for {T} in it}}',
    'genexp': 'r = list(e for {T} in it)', 'nestedcomp': 'r = [e for {T} in it for u2 in t2 if u2]',
    'walrus': 'if (w := val): pass', 'walrusarg': 'f(w := val)', 'walruscomp': 'r = [w := e for e in it]',
    'del': 'del {T}', 'import': 'import mod', 'importas': 'import mod.sub as alias', 'dotted': 'import a.b.c',
    'from': 'from pkg.m import n1, n2', 'fromas': 'from pkg import (n1 as a1,\n    n2)', 'fromstar': 'from pkg import *',
    'relfrom': 'from ..pkg import n1', 'except': 'try:\n    pass\nexcept E as err:\n    pass',
    'exceptbare': 'try:\n    pass\nexcept:\n    pass', 'param': 'def g(p1, p2): pass', 'paramdefault': 'def g(p1, p2=1): pass',
    'paramannot': 'def g(p1: int, p2: str = "s") -> int: pass', 'paramstar': 'def g(*args): pass',
    'paramkw': 'def g(**kw): pass', 'paramposonly': 'def g(p1, /, p2): pass', 'paramkwonly': 'def g(p1, *, k1, k2=2): pass',
    'lambda': 'r = lambda l1, *l2: l1', 'lambdadefault': 'r = lambda l1=1, **l2: l1', 'global': 'global gg\ngg = 1',
    'nonlocal': 'nn = 0\ndef inner():\n    nonlocal nn\n    nn = 1', 'classdef': 'class K(B, metaclass=M):\n    attr = 1',
    'funcdef': 'def g():\n    "doc"\n    return 1', 'decorated': '@dec(x=1)\nclass K:\n    @prop\n    def m(self): yield 1',
    'forelse': 'for {T} in it:\n    break\nelse:\n    raise E', 'withmulti': 'with a as {T}, b as t9:\n    pass',
    'trystar': 'try:\n    pass\nexcept* E as err:\n    pass',
    'importmulti': 'import os as o, sys', 'importmulti2': 'import a.b as c, d.e, f as g, h',
    'frommulti': 'from m import (a as b, c, d as e, f)', 'importmulti3': 'import p.q, r as s, t.u.v',
    # PEP 695 headers (accepted by a running CPython >= 3.12 only): every optional part of a function header present
    'generic': 'def g[T](p1: T): pass', 'genericret': 'def g[T](p1: T, *p2: int, **p3) -> T:\n    return p1',
    'genericasync': 'async def g[K, *Ts, **P](p1: K = 1) -> dict[K, int]:\n    yield p1',
    'genericbound': 'def g[T: int, U: (str, bytes)]() -> list[T]: pass',
    'genericclass': 'class K[T](B):\n    def m[U](self, p1: U) -> T: pass', 'typealias': 'type Alias[T] = list[T]',
    'retannot': 'def g() -> int: pass', 'asyncret': 'async def g(p1) -> "S":\n    await p1',
}
CONTEXT = {'module': '{B}', 'def': 'def outer(q):\n{I}', 'class': 'class Outer:\n{I}', 'asyncdef': 'async def outer(q):\n{I}',
           'nesteddef': 'def o1():\n    def o2():\n{II}\n    return o2', 'method': 'class Outer:\n    def meth(self):\n{II}'}


def render(c, s, x):
    body = CONSTRUCT[c]
    if '{T}' in body:
        body = body.replace('{T}', TARGET[s])
    elif s != 'name':
        return None
    body = body.replace('{{', '{').replace('}}', '}')
    def ind(t, n):
        return '\n'.join(('    ' * n + l) if l else l for l in t.split('\n'))
    tmpl = CONTEXT[x]
    return tmpl.replace('{B}', body).replace('{II}', ind(body, 2)).replace('{I}', ind(body, 1)) + '\n'


FLOW_HEAD = {
    'if': ['if c:'], 'else': ['if c:', '    pass', 'else:'], 'elif': ['if c:', '    pass', 'elif d:'], 'for': ['for i in y:'],
    'forelse': ['for i in y:', '    pass', 'else:'], 'while': ['while c:'], 'try': ['try:'],
    'except': ['try:', '    pass', 'except E:'], 'tryelse': ['try:', '    pass', 'except E:', '    pass', 'else:'],
    'finally': ['try:', '    pass', 'finally:'], 'with': ['with m as n:'], 'asyncwith': ['async with m as n:'],
    'asyncfor': ['async for i in y:'], 'match': ['match v:', '    case 1:'],
}
FLOW_TAIL = {'try': ['finally:', '    pass']}
FLOW_STMT = {'return': 'return', 'returnval': 'return 1', 'raise': 'raise E', 'yield': 'yield 1', 'yieldfrom': 'yield from g',
             'await': 'await g', 'def': 'def inner(a): return a', 'asyncdef': 'async def inner(): pass',
             'class': 'class Inner: pass', 'import': 'import os', 'from': 'from a import b', 'lambda': 'k = lambda: (yield)',
             'docstring': '"text"', 'decorated': '@dec\ndef inner2(): pass',
             # the words the helpers look for, as TEXT (f-string parts, string contents, attribute and keyword names)
             'wordsintext': 'k = f"yield" + f"{k}return" + "raise"; k.yield_ = g(await_=1)'}


def render_flow(f, c1, c2, st):
    lines = {'def': ['def outer(p):'], 'asyncdef': ['async def outer(p):'], 'method': ['class K:', '    def outer(self):']}[f][:]
    ind = 1 if f != 'method' else 2
    tails = []
    for c in (c1, c2):
        if c == 'none':
            continue
        extra = 1 if c == 'match' else 0
        for hl in FLOW_HEAD[c]:
            lines.append('    ' * ind + hl)
        if c in FLOW_TAIL:
            tails.append((ind, FLOW_TAIL[c]))
        ind += 1 + extra
    for sl in FLOW_STMT[st].split('\n'):
        lines.append('    ' * ind + sl)
    for i, t in reversed(tails):
        for tl in t:
            lines.append('    ' * i + tl)
    return '\n'.join(lines) + '\n'


def _other_queries(m):
    """call the semantic helpers with the flags the fact extraction does not use"""
    for n in record.walk(m):
        t = n.type
        if t == 'name':
            n.is_definition(include_setitem=True)
            n.get_definition(import_name_always=True, include_setitem=True)
            n.get_definition(import_name_always=False, include_setitem=True)
        elif t == 'expr_stmt':
            n.get_defined_names(include_setitem=True)
            n.get_rhs()
            list(n.yield_operators())
        elif t in ('for_stmt', 'with_stmt', 'sync_comp_for', 'comp_for', 'del_stmt', 'namedexpr_test'):
            if hasattr(n, 'get_defined_names'):
                n.get_defined_names(include_setitem=True)
        elif t in ('funcdef', 'lambdef'):
            n.get_params()
            list(n.iter_yield_exprs())
            list(n.iter_return_stmts())
            list(n.iter_raise_stmts())
            n.is_generator()
        elif t in ('import_name', 'import_from'):
            n.get_defined_names(include_setitem=True)
            n.get_paths()
            n.is_nested()
    m.get_used_names()


def observe(tid, text, origin):
    tr = {'id': tid, 'kind': 'facts', 'pfacts': {}, 'afacts': {}, 'raised': False, 'text': text, 'origin': origin, 'exc': '',
          'stable': True}
    af = facts.ast_facts(text)
    try:
        g, m = record.parse(text, VERSION)
        if any(n.type in ('error_node', 'error_leaf') for n in record.walk(m)):
            return None
        pf = facts.parso_facts(m)
        # the helpers are queries: asking other questions in between (non-default flags, every other helper of the
        # node) must not change the answers - a second extraction after such a pass has to give the same facts
        _other_queries(m)
        pf2 = facts.parso_facts(m)
        tr['stable'] = all(sorted(pf[k]) == sorted(pf2[k]) for k in facts.KINDS)
        if not tr['stable']:
            tr['unstable_kind'] = [k for k in facts.KINDS if sorted(pf[k]) != sorted(pf2[k])][0]
    except Exception as e:  # noqa
        tr['raised'] = True
        tr['exc'] = record.exc_key(e)
        pf = {k: [] for k in facts.KINDS}
    # docstrings outside the claim are dropped on both sides (by scope key)
    outside = {json.dumps(json.loads(x)[0]) for x in af['docstring'] if 'outside-claim' in x}
    af['docstring'] = [x for x in af['docstring'] if json.dumps(json.loads(x)[0]) not in outside]
    pf['docstring'] = [x for x in pf['docstring'] if json.dumps(json.loads(x)[0]) not in outside]
    interned = {}

    def I(x):
        return interned.setdefault(x, len(interned) + 1)
    tr['pfacts'] = {k: [I(x) for x in pf[k]] for k in facts.KINDS}
    tr['afacts'] = {k: [I(x) for x in af[k]] for k in facts.KINDS}
    tr['diff'] = {k: [sorted(set(af[k]) - set(pf[k]))[:3], sorted(set(pf[k]) - set(af[k]))[:3]] for k in facts.KINDS
                  if set(af[k]) != set(pf[k])}
    return tr


def run(tier):
    out = Outcome(PROP, tier, 'exploration')
    rng = random.Random(seed())
    scratch = Scratch(PROP)
    try:
        d = scratch.sub('b')
        tlc.prepare(d, ['Bindings'])
        res = tlc.run(d, 'Bindings', 'SPECIFICATION Spec\n', workers=2, dump='b', timeout=300)
        out.add('states', res.distinct)
        out.add('transitions', res.generated)
        triples = []
        for block in re.split(r'\nState \d+:\n', '\n' + open(os.path.join(d, 'b.dump')).read())[1:]:
            st = {m.group(1): tlc.parse_value(m.group(2).strip()) for m in re.finditer(r'/\\ (\w+) = (.*)', block)}
            if len(st) == 3:
                triples.append((st['c'], st['s'], st['x']))
        progs = []
        for c, s, x in sorted(triples):
            t = render(c, s, x)
            if t:
                progs.append((t, 'bindings:%s/%s/%s' % (c, s, x)))
        d2 = scratch.sub('f')
        tlc.prepare(d2, ['FlowMatrix'])
        rf = tlc.run(d2, 'FlowMatrix', 'SPECIFICATION Spec\n', workers=2, dump='f', timeout=300)
        out.add('states', rf.distinct)
        out.add('transitions', rf.generated)
        nflow = 0
        for block in re.split(r'\nState \d+:\n', '\n' + open(os.path.join(d2, 'f.dump')).read())[1:]:
            st = {m.group(1): tlc.parse_value(m.group(2).strip()) for m in re.finditer(r'/\\ (\w+) = (.*)', block)}
            if len(st) == 4:
                progs.append((render_flow(st['f'], st['c1'], st['c2'], st['s']),
                              'flow:%s/%s/%s/%s' % (st['f'], st['c1'], st['c2'], st['s'])))
                nflow += 1
        out.cov(flow_matrix=nflow)
        pairs, r2 = _semctx.enumerate_programs(scratch.sub('sem'), 1)
        out.add('states', r2.distinct)
        out.add('transitions', r2.generated)
        for ctx, st in pairs:
            t = _semctx.render(ctx, st)
            if t:
                progs.append((t, 'semctx'))
        nfiles = 60 if tier == 'quick' else 700
        for p in inputs.corpus_files(VERSION, nfiles, rng, include_repo=(tier == 'thorough')):
            progs.append((inputs.read_text(p), 'stdlib:' + os.path.basename(p)))
        # the same programs without their final line break (the last statement then has no NEWLINE leaf and its
        # simple_stmt collapses): every 3rd generated program, and docstring-only / one-line bodies in particular
        extra = [(t.rstrip('\n'), o + ':no-final-newline') for i, (t, o) in enumerate(progs)
                 if not o.startswith('stdlib') and (i % 3 == 0 or 'docstring' in o or 'funcdef' in o)]
        extra += [(t, 'eof-docstring') for t in (
            '"""mod"""', 'def f():\n    """doc"""', 'def f(): "doc"', 'class E(Exception):\n    """doc"""',
            'class K:\n    def m(self):\n        "doc"', '"""mod"""  # trailing comment', 'async def f():\n    "doc"')]
        progs += extra
        traces = []
        skipped = 0
        for text, origin in progs:
            try:
                tr = observe(len(traces) + 1, text, origin)
            except (SyntaxError, ValueError, RecursionError):
                skipped += 1
                continue
            if tr is None:
                skipped += 1
                continue
            traces.append(tr)
        slim = [{k: t[k] for k in ('id', 'kind', 'pfacts', 'afacts', 'raised', 'stable')} for t in traces]
        acc = 0
        rejects = []
        for i in range(0, len(slim), 400):
            a, rej, r3 = _rel.run_relational(scratch.sub('r%d' % i), slim[i:i + 400])
            acc += a
            rejects += rej
            out.add('states', r3.distinct)
            out.add('transitions', r3.generated)
        by = {t['id']: t for t in traces}
        for r in rejects:
            t = by[r[1]]
            kind = r[3].split(':')[-1]
            diff = t.get('diff', {}).get(kind, [[], []])
            key = r[3] + '|' + classify(t['text'], kind, diff)
            out.violation(key, 'Relational.' + r[3], {'origin': t['origin'], 'ast_only': diff[0], 'parso_only': diff[1],
                                                      'text': t['text'][:300] if len(t['text']) < 2000 else ''},
                          {'kind': 'facts', 'text': t['text'], 'origin': t['origin']})
        nfacts = sum(len(v) for t in traces for v in t['afacts'].values())
        out.cov(evaluations=len(traces), distinct_nontrivial=len({t['text'] for t in traces}),
                traces_validated_against_impl=acc, facts_compared=nfacts, binding_matrix=len(triples), skipped=skipped,
                rule='programs = Bindings matrix (%d constructs x 10 target shapes x 6 contexts, TLC-enumerated, those with a '
                     'rendering) + SemCtx statements + whole stdlib modules of CPython %s; kept iff ast.parse accepts and parso '
                     'has no error node; 9 fact kinds per program; distinct by text' % (len(CONSTRUCT), VERSION))
        for t in traces[:2]:
            out.sample({'origin': t['origin'], 'text': t['text'][:160]})
        out.assumptions += ['reference = ast of the interpreter running the harness (%s); names not positioned by the ast are '
                            'located with its tokenizer' % VERSION]
    finally:
        scratch.cleanup()
    return out


def classify(text, kind, diff):
    """structural cause key of a disagreement"""
    if kind == 'definition' and diff[0] and not diff[1]:
        # a binding CPython sees and parso does not: is it a walrus used directly as a call argument?
        for item in diff[0]:
            line, col, name = json.loads(item)
            ls = text.splitlines()
            seg = ls[line - 1][col:] if line - 1 < len(ls) else ''
            before = ls[line - 1][:col] if line - 1 < len(ls) else ''
            if re.match(re.escape(name) + r'\s*:=', seg) and re.search(r'[(,]\s*$', before):
                return 'walrus-as-call-argument'
    return 'other'


def replay(path):
    d = json.load(open(path))['replay']
    tr = observe(1, d['text'], 'replay')
    print(tr['diff'] if tr else 'not applicable')
    return 0
