"""Shared ParserB machinery for C02 (design half), C05, C06, C07 and the generators of C13/C20."""
import concurrent.futures
import json
import os
import random
import re

from harness import parserb, pgen_export, pipeline, record, tlc
from harness.common import NCPU, Scratch, VERSIONS, seed

NEWEST = VERSIONS[-1]


def _exhaustive_job(args):
    run_dir, version, mode, maxtok, workers = args
    info = parserb.export(run_dir, version, mode=mode, env='tokenv', hist=False, maxtok=maxtok)
    res = tlc.run(run_dir, 'ParserB', parserb.cfg(), workers=workers, timeout=3400, heap='10g')
    cex = None
    if res.violated:
        toks = [int(x) for x in re.findall(r'<Feed\((\d+)\)', res.out)]
        cex = {'invariant': res.violated[0], 'toks': toks,
               'labels': [info['labels'][i - 1] for i in toks], 'tail': res.out[-1500:]}
    return {'version': version, 'mode': mode, 'maxtok': maxtok, 'distinct': res.distinct, 'generated': res.generated,
            'depth': res.depth, 'cex': cex}


def design_part(out, tier, prop):
    """TLC explores ParserB exhaustively over all token streams TokEnv allows up to a bound."""
    scratch = Scratch(prop + 'pb')
    try:
        if tier == 'quick':
            plan = [('3.8', 'recover', 4), (NEWEST, 'recover', 4), ('3.8', 'strict', 3)]
        else:
            plan = [(v, 'recover', 5) for v in VERSIONS] + [('3.8', 'strict', 4), (NEWEST, 'strict', 4),
                                                          ('3.8', 'recover', 6)]
        jobs = [(scratch.sub('x%d' % i), v, m, k, 2) for i, (v, m, k) in enumerate(plan)]
        runs = []
        with concurrent.futures.ThreadPoolExecutor(max_workers=3) as ex:
            for r in ex.map(_exhaustive_job, jobs):
                runs.append(r)
        for r in runs:
            out.add('states', r['distinct'])
            out.add('transitions', r['generated'])
            if r['cex']:
                reproduce(out, prop, r)
        out.cov(parserb_exhaustive=[{k: r[k] for k in ('version', 'mode', 'maxtok', 'distinct', 'generated')}
                                    for r in runs])
    finally:
        scratch.cleanup()


def reproduce(out, prop, r):
    """A B-spec counterexample counts as a violation only if the real code reproduces it."""
    cex = r['cex']
    text = parserb.render(cex['labels'])
    real = None
    if text is not None:
        try:
            record.parse(text, r['version'], error_recovery=(r['mode'] == 'recover'))
            real = 'returned'
        except Exception as e:  # noqa
            real = record.exc_key(e)
    if real and real != 'returned' and not real.startswith('ParserSyntaxError'):
        out.violation('%s|%s' % (cex['invariant'], real), 'ParserB.' + cex['invariant'],
                      {'text': text, 'version': r['version'], 'exception': real, 'tokens': cex['labels']},
                      {'kind': 'tokens', 'text': text, 'version': r['version']})
    else:
        out.drift.append('ParserB %s violated in the model (version %s, tokens %s) but the real parser %s on %r' % (
            cex['invariant'], r['version'], [l[1] for l in cex['labels']], real, text))


def _beh_job(args):
    run_dir, version, env, num, sd, errlevels, exhaustive, start = args
    scripts = None
    if env == 'script':
        rec, _ = pgen_export.grammar_record(pgen_export.grammar_text(version))
        scripts, _ = parserb.arc_cover(rec, start, two_level=True)
    try:
        info, behs, res = parserb.behaviours(run_dir, version, env, num=num, seed=sd, errlevels=errlevels,
                                             errbudget=len(errlevels), closeat=14 if not (exhaustive or scripts) else 0,
                                             depth=26, workers=2, exhaustive_tokens=exhaustive, start=start,
                                             scripts=scripts, timeout=3000 if exhaustive else 1500)
    except tlc.TLCError as e:
        # a generator run that does not finish (a loaded machine) costs its behaviours, not the whole check
        return {'behs': [], 'distinct': 0, 'generated': 0, 'violated': [], 'tail': '',
                'incomplete': '%s %s %s: %s' % (version, env, start, str(e)[:160])}
    rl = parserb.Relabel(info, version)
    lab = info['labels']
    outb = []
    for b in behs:
        labels = [lab[i - 1] for i in b['toks']]
        text = parserb.render(labels)
        faithful = False
        if text is not None:
            try:
                faithful = rl.token_ids(text) == b['toks']
            except Exception:
                faithful = False
        outb.append({'version': version, 'env': env, 'text': text, 'faithful': faithful, 'labels': labels,
                     'status': b['status'], 'out': b['out'], 'err': b['err'], 'bad': b['bad'], 'errAt': b['errAt'],
                     'start': start})
    return {'behs': outb, 'distinct': res.distinct, 'generated': res.generated, 'violated': res.violated,
            'tail': res.out[-1200:] if res.violated else ''}


def generate(out, tier, prop, envs=('valid', 'broken', 'tokenv'), versions=None, num=None, exhaustive_valid=0,
             starts=('file_input',), arc_cover=False):
    """Run ParserB with history (simulation per env mode; optionally exhaustive valid sentences) and return
    the behaviours with their renderings.  TLC checks NodesConform & co. on every state it generates."""
    rng = random.Random(seed() * 31 + 5)
    versions = versions or (['3.8', NEWEST] if tier == 'quick' else VERSIONS)
    num = num or (240 if tier == 'quick' else 1500)
    scratch = Scratch(prop + 'gen')
    behs = []
    try:
        jobs = []
        i = 0
        for v in versions:
            for env in envs:
                lv = sorted(rng.sample(range(2, 13), 2)) if env == 'broken' else []
                jobs.append((scratch.sub('g%d' % i), v, env, num, rng.randrange(1 << 30), lv, 0, 'file_input'))
                i += 1
            if arc_cover:
                for st in starts:
                    jobs.append((scratch.sub('g%d' % i), v, 'script', 0, 0, [], 0, st))
                    i += 1
            if exhaustive_valid:
                for st in starts:
                    jobs.append((scratch.sub('g%d' % i), v, 'valid', 0, 0, [], exhaustive_valid, st))
                    i += 1
        with concurrent.futures.ProcessPoolExecutor(max_workers=3) as ex:
            for r in ex.map(_beh_job, jobs):
                out.add('states', r['distinct'])
                out.add('transitions', r['generated'])
                behs += r['behs']
                if r.get('incomplete'):
                    out.assumptions.append('ParserB generator run did not finish and contributed no behaviours: ' + r['incomplete'])
                if r['violated']:
                    out.drift.append('ParserB invariant %s violated while generating behaviours: %s' % (
                        r['violated'], r['tail'][-400:]))
                for b in r['behs']:
                    if b['bad']:
                        out.drift.append('ParserB.NodesConform: %s on %r' % (b['bad'], b['text']))
    finally:
        scratch.cleanup()
    return behs


def conformance(out, behs):
    """spec -> code: replay every faithfully rendered behaviour into the real parser and compare the
    predicted closing events; disagreement = MODEL-DRIFT (verdicts come from the A-specs)."""
    agree = drift = 0
    by_v = {}
    for b in behs:
        if not b['faithful'] or b['start'] != 'file_input':
            continue
        v = b['version']
        if v not in by_v:
            info_dir = Scratch('rl')
            info = parserb.export(info_dir.path, v)
            by_v[v] = parserb.Relabel(info, v)
            info_dir.cleanup()
        rl = by_v[v]
        try:
            g, m = record.parse(b['text'], v)
            ev = parserb.real_events(m, rl)
        except Exception as e:  # noqa
            ev = ['raised', record.exc_key(e)]
        if ev == parserb.norm_events(b['out']):
            agree += 1
        else:
            drift += 1
            if drift <= 3:
                out.drift.append('real parser and ParserB disagree on %r (%s)' % (b['text'], v))
    out.cov(parserb_behaviours=len(behs), parserb_faithful=agree + drift, parserb_replayed_agree=agree,
            parserb_replayed_disagree=drift)
    return agree, drift
