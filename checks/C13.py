"""C13 - error listing is total, coherent with the tree, pure and deterministic (A-spec Issues, kind "errors")."""
from checks import _issues

PROP = 'C13'


def run(tier):
    return _issues.run_issues(PROP, 'errors', tier, 120000 if tier == 'thorough' else 20000, provenance=True, semctx=True)


replay = _issues.replay
