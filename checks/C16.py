"""C16 - the parse cache is transparent: never a stale or foreign tree.

Design: TLC explores the Cache spec (one action per step of the real code path, environment = writes, time,
restarts, another process, eviction, removed / damaged cache files) and checks Transparent / NoForeign on every
reachable state.  Two regression configurations (the protocol before the repair) must be VIOLATED - the spec
can see the defect.
Code: TLC-generated histories (exhaustive for race-focused environments, simulated for the full one, plus the
counterexamples of the regression configurations) are replayed into the real cache with real files, a virtual
clock and preemption at every file operation; the recorded Start/Write/Return events are validated by TLC
against CacheTrace."""
import random

from checks import _cache
from harness.common import Scratch, seed
from harness.result import Outcome

PROP = 'C16'


def run(tier):
    out = Outcome(PROP, tier, 'model_checking')
    rng = random.Random(seed())
    scratch = Scratch(PROP)
    try:
        # 1. design: B => A
        configs = [dict(maxclock=5, maxcalls=3, faults=1)]
        if tier == 'thorough':
            configs += [dict(paths='{p1, p2}', grammars='{g1, g2}', contents='{a, b}', maxclock=4, maxcalls=3, faults=1),
                        dict(dirs='{d1, d2}', maxclock=5, maxcalls=3, faults=1),
                        dict(maxclock=6, maxcalls=4, faults=2)]
        else:
            configs += [dict(paths='{p1, p2}', grammars='{g1, g2}', contents='{a, b}', maxclock=3, maxcalls=2, faults=0),
                        dict(dirs='{d1, d2}', contents='{a, b}', maxclock=4, maxcalls=3, faults=1)]
        runs = []
        for i, c in enumerate(configs):
            res = _cache.model_check(scratch.sub('mc%d' % i), **c)
            out.add('states', res.distinct)
            out.add('transitions', res.generated)
            runs.append({'config': c, 'distinct': res.distinct, 'violated': res.violated})
            if res.violated:
                h = _cache.counterexample_history(res)
                tr, dr = _cache.replay_all([h], 'model-cex')
                acc, rej, _ = _cache.validate(scratch.sub('cexv'), tr)
                if rej:
                    out.violation('%s|model+real' % res.violated[0], 'Cache.' + res.violated[0],
                                  {'history': h, 'real_events': tr[0]['events']}, {'kind': 'history', 'hist': h})
                else:
                    out.drift.append('Cache spec violates %s but the real code does not on %s' % (res.violated[0], h))
        # 2. regression configurations: the spec must see the old defects
        reg = []
        cex_hists = []
        for name, kw in (('stat-after-read', dict(stat_before_read=False, compare_ct=False)),
                         ('pickle-mtime-only', dict(stat_before_read=True, compare_ct=False)),
                         ('stat-after-read+ct', dict(stat_before_read=False, compare_ct=True))):
            res = _cache.model_check(scratch.sub('reg' + name), maxclock=5, maxcalls=3, faults=0,
                                     envset=['Tick', 'Write', 'Restart', 'OtherCall'], invs=['Transparent'], **kw)
            out.add('states', res.distinct)
            out.add('transitions', res.generated)
            reg.append({'protocol': name, 'violated': res.violated})
            if res.violated:
                cex_hists.append(_cache.counterexample_history(res))
        out.cov(model_runs=runs, regression_protocols=reg)
        if not all(r['violated'] for r in reg[:2]):
            out.drift.append('a regression protocol is no longer violated in the Cache spec: %s' % reg)
        # 3. histories -> real code -> CacheTrace
        hists = list(cex_hists)
        for envset, mc, faults in ((['Write', 'Restart'], 3, 0), (['Write', 'OtherCall', 'Restart'], 2, 0),
                                   (['Write', 'Restart', 'Evict', 'RemoveFile'], 2, 0)):
            hs, res = _cache.histories(scratch.sub('h%d' % len(hists)), envset=envset, contents='{a, b}', maxclock=mc,
                                       maxcalls=3 if (len(envset) < 4 or tier == 'thorough') else 2, faults=faults)
            out.add('states', res.distinct)
            out.add('transitions', res.generated)
            hists += hs
        # two paths with the eviction trigger lowered (entries of different paths must never be confused)
        hs, res = _cache.histories(scratch.sub('h2p'), envset=['Write'], paths='{p1, p2}', contents='{a, b}',
                                   maxclock=2, maxcalls=4, faults=0, diffmodes='{FALSE}')
        out.add('states', res.distinct)
        out.add('transitions', res.generated)
        two_path = hs if tier == 'thorough' or len(hs) <= 3000 else rng.sample(hs, 3000)
        n_exh = len(hists)
        hs, res = _cache.histories(scratch.sub('sim'), simulate=300 if tier == 'quick' else 3000, seed=rng.randrange(1 << 30),
                                   paths='{p1, p2}', grammars='{g1, g2}', dirs='{d1, d2}', maxclock=8, maxcalls=4, faults=1)
        hists += hs
        hs, res = _cache.histories(scratch.sub('sim2'), simulate=300 if tier == 'quick' else 3000,
                                   seed=rng.randrange(1 << 30), envset=['Write', 'Restart', 'Tick'], maxclock=7,
                                   maxcalls=4, faults=0)
        hists += hs
        traces, drift = _cache.replay_all(hists, 'hist')
        t2, d2 = _cache.replay_all(two_path, 'two-path', start_id=len(hists), size_trigger=2)
        traces += t2
        drift += d2
        hists = hists + two_path
        # the real file layer: how the file is named (links, relative path) x memory / fresh process / diff_cache
        import os
        from harness import cachefaults
        from harness.common import BUILD
        rt = cachefaults.realfs_scenarios(os.path.join(BUILD, 'realfs-%d' % os.getpid()))
        rt += cachefaults.sibling_path_scenarios(os.path.join(BUILD, 'realfs-%d' % os.getpid()))
        traces += rt
        out.cov(real_file_layer_scenarios=len(rt))
        out.drift += drift[:5]
        acc, rej, res = _cache.validate(scratch.sub('val'), traces)
        out.add('states', res.distinct)
        out.add('transitions', res.generated)
        for r in rej:
            tr = r['trace']
            out.violation(r['reject'][3], 'CacheTrace.' + r['reject'][3],
                          {'history': tr['hist'], 'events': tr['events'], 'at': r['reject'][4]},
                          {'kind': 'history', 'hist': tr['hist']})
        nontriv = sum(1 for t in traces if any(e['ev'] == 'Write' for e in t['events'])
                      and sum(1 for e in t['events'] if e['ev'] == 'Return') >= 2)
        out.cov(traces_validated_against_impl=acc, evaluations=len(traces), distinct_nontrivial=nontriv,
                exhaustive_histories=n_exh, model_drift_count=len(drift),
                rule='histories = all behaviours of the Cache spec for three race-focused environments (<= 3 calls, <= 2 '
                     'writes) + counterexamples of the pre-repair protocols + simulated histories of the full environment '
                     '(2 paths x 2 grammars x 2 cache dirs); each is replayed into the real cache; non-trivial = at least '
                     'one write and two returns; distinct by history')
        out.sample({'history': hists[len(hists) // 2], 'events': traces[len(hists) // 2]['events']})
        # binding: a corrupted recorded result must be rejected
        bad = [dict(traces[0])]
        evs = [dict(e) for e in bad[0]['events']]
        for e in evs:
            if e['ev'] == 'Return':
                e['c'] = 'c' if e['c'] != 'c' else 'b'
                break
        bad[0]['events'] = evs
        acc2, rej2, _ = _cache.validate(scratch.sub('bind'), bad)
        out.cov(binding_demonstrated={'corrupted_return_rejected': bool(rej2)})
        out.assumptions += ['file changes are observable as a newer mtime (every Write advances the clock)',
                            'the second process is emulated by swapping parser_cache and runs its whole call atomically',
                            'all timestamps (sources, pickles, parso.cache.time) live in one virtual clock domain']
    finally:
        scratch.cleanup()
    return out


def replay(path):
    import json
    from harness import fsim
    from harness.common import BUILD
    import os
    d = json.load(open(path))
    ev, dr = fsim.replay(os.path.join(BUILD, 'world-replay'), d['replay']['hist'])
    for e in ev:
        print(e)
    print(dr)
    return 0
