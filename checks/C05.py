"""C05 - trees conform to the grammar; invalid input is confined to error nodes.

Design: ParserB.NodesConform (every node that closes in the B-spec is a sentence of its rule's TEXT under the
conventions) checked by TLC on all states of simulated valid / broken / arbitrary token streams.
Code: ConformTrace validates every node of the real trees of those streams' renderings and of the standard
text set against the grammar text of the tree's version."""
import random

from checks import _parserb
from harness import pgen_export, pipeline, texts
from harness.common import Scratch, VERSIONS, seed
from harness.result import Outcome

PROP = 'C05'


def run(tier):
    out = Outcome(PROP, tier, 'model_checking')
    rng = random.Random(seed() + 505)
    behs = _parserb.generate(out, tier, PROP)
    _parserb.conformance(out, behs)
    scratch = Scratch(PROP)
    try:
        items = texts.standard_items(tier, rng, scratch, out, 60000 if tier == 'thorough' else 9000)
        n = len(items)
        for b in behs:
            if b['text'] is not None:
                n += 1
                items.append([n, b['text'], b['version'], 'parserb:' + b['env']])
        byv = {}
        for it in items:
            byv.setdefault(it[2], []).append(it)
        tot_acc = tot_n = nontriv = 0
        for v, its in sorted(byv.items()):
            rec, tb = pgen_export.grammar_record(pgen_export.grammar_text(v))
            res = pipeline.validate(its, 'harness.recorders.rec_conform', {}, scratch.sub('c' + v),
                                    ['Ebnf', 'Conform', 'ConformTrace'], 'ConformTrace',
                                    wrap_extra={}, nshards=2 if len(its) < 4000 else 4,
                                    extra_files={'gs.json': pgen_export.to_json([rec])})
            out.add('states', res['states'])
            out.add('transitions', res['generated'])
            tot_acc += res['accepted']
            tot_n += res['n']
            nontriv += res['nontrivial']
            for rej in res['rejected']:
                r = rej['reject']
                tr = rej['trace'] or {}
                out.violation(r[3] + ('|' + tr.get('exc') if tr.get('exc') else ''), 'ConformTrace.' + r[3],
                              {'reject': r, 'text': tr.get('text'), 'version': v},
                              {'kind': 'tree', 'trace': tr})
            for s in res['samples'][:1]:
                out.sample(s)
        out.cov(traces_validated_against_impl=tot_acc, evaluations=tot_n, distinct_nontrivial=nontriv,
                rule='texts = renderings of ParserB behaviours (simulated valid / broken(2 errors) / arbitrary token '
                     'streams, closed to complete files) + the standard text set; every non-error node of every real '
                     'tree must be accepted by the position automaton of its rule\'s text (ConformTrace); non-trivial = '
                     'tree with an interior node besides the root')
        out.assumptions += ['conventions (collapse, suite INDENT/DEDENT, param grouping, lambdef_nocond, missing final '
                            'newline at end of file, error node/leaf in a statement or block slot) as spelled out in '
                            'specs/ConformTrace.tla', 'grammar text read by harness/ebnf.py']
    finally:
        scratch.cleanup()
    return out


def replay(path):
    from checks import _tree
    return _tree.replay_tree(path)
