"""Rendering of SemCtx (context stack, statement) pairs to programs."""
import os
import re

from harness import tlc

STMTS = [
    'return x', 'return', 'yield x', 'yield', 'yield from x', 'await x', 'break', 'continue', 'global a', 'nonlocal a',
    'from m import *', 'import a.b', 'import a.b\nglobal a', 'x = 1', '(y := 1)', 'f(y := 1)', 'x: int = 1', 'a.b: int',
    'del x', 'del (x, y)', '*a, b = c', 'a, *b = c', '*a = c', 'x = *a, b', 'raise', 'raise E from None', 'pass',
    'assert x, y', 'lambda: (yield)', 'lambda: (await x)', '[i for i in x]', '[await i for i in x]',
    '(i async for i in x)', '[i async for i in x]', 'f(**k, *a)', 'f(a=1, b)', 'f(*a, **k)', 'f(x for x in y)',
    'f(x for x in y, 1)', 'x = yield', 'x += yield', 'x = await y', 'async with a as b: pass', 'async for i in x: pass',
    'with (a as b): pass', 'print(f"{x!r:>{w}}")', 'print(f"{y:{z:{w}}}")', 'f"{x = }"', 'def g(a, /, b, *, c): pass',
    'def g(a=1, b): pass', 'def g(*, a): pass', 'def g(*): pass', 'class D(x for x in y): pass', 'x = lambda a, /: a',
    'try: pass\nexcept* E: pass', 'match x:\n    case 1: pass', 'type X = int', 'def g[T](a: T): pass',
    'a = b = c', 'a = b += c', '(a, b) += c', '[a, b] = c', 'f() = 1', 'x = 1 if y else 2', 'not x = 1', 'None = 1',
    '__debug__ = 1', 'x.__debug__ = 1', 'for x in *a, b: pass', 'for x in y: break\nelse: continue',
    'while x: continue', 'try: pass\nfinally: continue', 'try: pass\nfinally: break', 'try: pass\nfinally: return',
    'global x; x = 1', 'x = 1; global x', 'nonlocal x; x = 1', 'def g(): nonlocal a', 'def g(a): global a',
    'class D: nonlocal a', 'from __future__ import annotations', 'from __future__ import braces',
    'x = 1\nfrom __future__ import annotations', '"doc"\nfrom __future__ import division', 'a, b += 1',
    'x = [*a, *b]', 'x = {**a, **b}', 'x = {*a}', 'print(*a, sep="")', 'x = 0o17 + 0b1 + 1_000', 'x = 1__0', 'x = 0777',
    'return *a, b', 'yield *a, b', 'x[a:b, c] = 1', 'x[*a] = 1', 'del x[*a]', 'a = yield from b', 'await = 1',
    'async = 1', 'def await(): pass', 'def g():\n    nonlocal p\n    p = 1', 'def g():\n    global p\n    p = 1',
    'nonlocal p', 'global p', 'def g():\n    def h():\n        nonlocal p\n        return p\n    return h',
    'r = lambda: p', 'class K:\n    def m(self):\n        nonlocal p', 'def g(p):\n    def h():\n        nonlocal p',
    'n = 0\ndef g():\n    nonlocal n\n    n += 1', 'def g():\n    nonlocal zz', 'x = b"\\xff" "a"', 'x = "a" b"b"', 'x = f"{a}" "b"',
    # keywords as TEXT of an f-string, walrus as a positional argument, docstrings that are not one plain literal
    'x = f"yield"', 'x = f"{y}return"', 'x = f"await" f"break{y}continue"', 'f(a := 1, b)', 'class D(a := 1, b): pass',
    'f(a, b := 1, *c, d=2)', '"doc" "more"\nfrom __future__ import annotations', 'from __future__ import barry_as_FLUFL',
    'from __future__ import annotations, division', "'''doc'''\nfrom __future__ import division",
    'from __future__ import division as dv', 'from __future__ import (annotations as an, division)',
    'from __future__ import generator_stop as gs, unicode_literals', 'global x\nx: int = 1', 'nonlocal_ = 1\nglobal y\ny: int',
]

FRAME = {
    'def': 'def f(p):\n', 'asyncdef': 'async def f(p):\n', 'class': 'class C:\n', 'for': 'for i in y:\n',
    'while': 'while c:\n', 'try': 'try:\n', 'finally': 'try:\n    pass\nfinally:\n', 'with': 'with m as n:\n',
    'if': 'if c:\n', 'asyncfor': 'async for i in y:\n', 'except': 'try:\n    pass\nexcept E as e:\n',
}


def render(ctx, stmt):
    """-> program text (None when this combination has no statement-level rendering)"""
    s = STMTS[stmt - 1]
    lines = []
    ind = 0
    expr_wrappers = []
    tails = []
    for f in ctx:
        if f in ('lambda', 'listcomp', 'genexp'):
            expr_wrappers.append(f)
            continue
        if expr_wrappers:
            return None                    # a statement frame inside an expression frame
        head = FRAME[f]
        for hl in head.rstrip('\n').split('\n'):
            # lines of a multi-line head keep their own relative indentation
            lines.append('    ' * ind + hl)
        ind += 1
        if f == 'try':
            tails.append((ind - 1, 'finally:\n' + '    ' * ind + 'pass'))
    if expr_wrappers:
        if '\n' in s or re.match(r'(return|yield|break|continue|global|nonlocal|from|import|del|raise|pass|assert|'
                                 r'async|with|def|class|try|match|type|for|while)\b', s) or '=' in s.split('(')[0]:
            if not s.startswith(('yield', 'await')):
                return None
        e = '(%s)' % s
        for w in reversed(expr_wrappers):
            e = {'lambda': '(lambda q: %s)', 'listcomp': '[%s for j in z]', 'genexp': 'list(%s for j in z)'}[w] % e
        s = 'r = ' + e
    for sl in s.split('\n'):
        lines.append('    ' * ind + sl)
    for i, t in reversed(tails):
        lines.append('    ' * i + t)
    return '\n'.join(lines) + '\n'


def enumerate_programs(run_dir, depth):
    tlc.prepare(run_dir, ['SemCtx'])
    res = tlc.run(run_dir, 'SemCtx', 'SPECIFICATION Spec\nCONSTANTS Depth = %d\n NStmt = %d\n' % (depth, len(STMTS)),
                  workers=2, dump='sem', timeout=600)
    txt = open(os.path.join(run_dir, 'sem.dump')).read()
    out = []
    for block in re.split(r'\nState \d+:\n', '\n' + txt)[1:]:
        m1 = re.search(r'/\\ ctx = (.*)', block)
        m2 = re.search(r'/\\ stmt = (\d+)', block)
        if not m1 or not m2 or m2.group(1) == '0':
            continue
        ctx = tlc.parse_value(m1.group(1).strip())
        out.append((ctx, int(m2.group(1))))
    os.remove(os.path.join(run_dir, 'sem.dump'))
    return out, res
