"""C15 - source decoding and line splitting follow Python's rules exactly.

Lines: TLC enumerates every string up to 5 (quick) / 6 (thorough) over an alphabet of every str.splitlines
separator plus one ordinary character (spec Strings); parso.split_lines (keepends on/off) and the line count of
the parsed module are validated by TLC against Lines.SplitLines (a scanner over code points) and its laws.
Decode: TLC enumerates every abstract two-line header (spec Headers); each is rendered to byte strings whose
non-ASCII bytes distinguish the encodings; verdict: whenever CPython's tokenize.detect_encoding + decode succeed,
parso yields the same text (plus the BOM it keeps); the spec's own PEP 263 decision is compared with CPython's
(drift)."""
import codecs
import io
import json
import os
import random
import re
import tokenize

from harness import inputs, pipeline, tlc
from harness.common import Scratch, cps, import_parso, seed
from harness.result import Outcome

parso = import_parso()
PROP = 'C15'
SEP_ALPHABET = ['a', '\n', '\r', '\f', '\x0b', '\x1c', '\x1d', '\x1e', '\x85', ' ', ' ']


def rec_lines(items, opts):
    out = []
    for tid, text, ver, origin in items:
        tr = {'id': tid, 'kind': 'lines', 'inp': cps(text), 'keep': [], 'drop': [], 'modlines': 0, 'raised': False,
              'text': text, 'origin': origin, 'nontrivial': len(text) > 1, 'exc': ''}
        try:
            # the caller owns the list it gets: editing it must not show in a later call with an equal string
            for ke in (True, False):
                first = parso.split_lines(text, keepends=ke)
                saved = list(first)
                first.append('edited by the caller')
                del first[0]
                again = parso.split_lines(str(text), keepends=ke)
                if again != saved:
                    raise AssertionError('split_lines result aliased with an earlier result (keepends=%s)' % ke)
            tr['keep'] = [cps(l) for l in parso.split_lines(text, keepends=True)]
            tr['drop'] = [cps(l) for l in parso.split_lines(text, keepends=False)]
            if opts.get('parse'):
                tr['modlines'] = parso.parse(text, version=ver).end_pos[0]
        except Exception as e:  # noqa
            from harness import record
            tr['raised'] = True
            tr['exc'] = record.exc_key(e)
        out.append(_pad(tr))
    return out


FIELDS = {'inp': [], 'keep': [], 'drop': [], 'modlines': 0, 'l1': {'kind': '', 'enc': ''}, 'l2': {'kind': '', 'enc': ''},
          'bom': False, 'refok': False, 'ref': 0, 'got': 0, 'specenc': '', 'refenc': '', 'raised': False}


def _pad(tr):
    for k, v in FIELDS.items():
        tr.setdefault(k, v)
    return tr


RENDER = {
    'none': [None],
    'blank': [b'', b'   ', b'\t\x0c'],
    'comment': [b'# hello', b'#!/usr/bin/env python', b'  # decoding is hard'],
    'cookie': [b'# -*- coding: %s -*-', b'# vim: set fileencoding=%s :', b'#coding=%s', b'   # coding: %s'],
    'code': [b'x = 1', b'import os'],
    'codecookie': [b'x = 1  # coding: %s'],
    'strcookie': [b's = "coding: %s"', b"x = open(f, encoding=%s)"],
}
BODY = {'ascii': b'y = "plain"', 'utf8': b'y = "\xc3\xa9\xe2\x82\xac"', 'latin1': b'y = "\xe9"',
        # bytes on which the iso-8859-N codecs differ from each other
        'high': b'y = "\xa4\xa6\xbd\xe9"'}


def norm(enc):
    # PEP 263 names are first normalised the way CPython's tokenizer does (get_normal_name)
    e = enc[:12].lower().replace('_', '-')
    if e == 'utf-8' or e.startswith('utf-8-'):
        return 'utf-8'
    if e in ('latin-1', 'iso-8859-1', 'iso-latin-1') or e.startswith(('latin-1-', 'iso-8859-1-', 'iso-latin-1-')):
        enc = 'iso-8859-1'
    try:
        n = codecs.lookup(enc).name
    except LookupError:
        return enc
    return 'utf-8' if n == 'utf-8-sig' else n


def header_traces(states, rng):
    traces = []
    interned = {}

    def I(s):
        return interned.setdefault(s, len(interned) + 1)
    tid = 0
    for st in states:
        for variant in range(2):
            for nl in (b'\n', b'\r\n', b'\r'):
                parts = []
                for l in (st['l1'], st['l2'], st.get('l3', {'kind': 'none', 'enc': ''})):
                    tmpl = rng.choice(RENDER[l['kind']])
                    if tmpl is None:
                        continue
                    parts.append(tmpl % l['enc'].encode() if b'%s' in tmpl else tmpl)
                data = nl.join(parts + [BODY[st['body']]]) + (nl if variant else b'')
                if st['l1']['kind'] == 'none':
                    data = BODY[st['body']] if variant else b''
                if st['bom']:
                    data = codecs.BOM_UTF8 + data
                tid += 1
                tr = {'id': tid, 'kind': 'decode', 'l1': {'kind': st['l1']['kind'], 'enc': norm(st['l1']['enc'])},
                      'l2': {'kind': st['l2']['kind'], 'enc': norm(st['l2']['enc'])}, 'bom': st['bom'], 'bytes': repr(data),
                      'nontrivial': st['l1']['kind'] != 'none', 'origin': 'headers'}
                try:
                    # CPython reads source lines with universal newlines: the reference sees \r as a line break too
                    pieces = iter(re.findall(rb'[^\r\n]*(?:\r\n|\r|\n)|[^\r\n]+\Z', data))
                    enc, _ = tokenize.detect_encoding(lambda: next(pieces, b''))
                    text = data.decode(enc)
                    tr['refok'] = True
                    tr['refenc'] = norm(enc)
                    tr['ref'] = I(('﻿' if st['bom'] else '') + text)
                except (SyntaxError, LookupError, UnicodeDecodeError):
                    tr['refok'] = False
                try:
                    got = parso.python_bytes_to_unicode(data)
                    tr['got'] = I(got)
                    if parso.parse(data).get_code() != got:
                        tr['got'] = -1
                except Exception as e:  # noqa
                    from harness import record
                    tr['raised'] = True
                    tr['exc'] = record.exc_key(e)
                tr['specenc'] = ''
                traces.append(_pad(tr))
    return traces


def run(tier):
    out = Outcome(PROP, tier, 'model_checking')
    rng = random.Random(seed())
    scratch = Scratch(PROP)
    try:
        # ---- lines ----
        n = 6 if tier == 'thorough' else 5
        strs, res = inputs.tlc_strings(scratch.sub('s'), n, SEP_ALPHABET)
        out.add('states', res.distinct)
        out.add('transitions', res.generated)
        items = [[i + 1, s, '3.9', 'separator-strings'] for i, s in enumerate(strs)]
        base = len(items)
        cpts = list(range(0, 0x3100)) + list(range(0xfe00, 0x10000)) + [0x1d173, 0xe0001, 0x10ffff]
        if tier == 'thorough':
            cpts = [c for c in range(0, 0x110000)]
        cpts = [c for c in cpts if not 0xd800 <= c <= 0xdfff]
        for j, c in enumerate(cpts):
            items.append([base + j + 1, 'a' + chr(c) + 'b' + chr(c), '3.9', 'single-code-point'])
        r1 = pipeline.validate(items, 'checks.C15.rec_lines', {}, scratch.sub('l'), ['Lines'], 'Lines', wrap_extra={})
        # same line count as the tree (costlier: parse): a sample
        sample = [[it[0], it[1], it[2], 'with-parse'] for it in rng.sample(items, 6000 if tier == 'quick' else 60000)]
        r2 = pipeline.validate(sample, 'checks.C15.rec_lines', {'parse': True}, scratch.sub('lp'), ['Lines'], 'Lines',
                               wrap_extra={})
        # ---- decode ----
        tlc.prepare(scratch.sub('h'), ['Headers'])
        hres = tlc.run(scratch.sub('h'), 'Headers', 'SPECIFICATION Spec\n', workers=2, dump='hdr', timeout=300)
        states = []
        txt = open(os.path.join(scratch.sub('h'), 'hdr.dump')).read()
        for block in re.split(r'\nState \d+:\n', '\n' + txt)[1:]:
            st = {}
            for m in re.finditer(r'/\\ (\w+) = (.*)', block):
                st[m.group(1)] = tlc.parse_value(m.group(2).strip())
            if len(st) == 5:
                states.append(st)
        out.add('states', hres.distinct)
        out.add('transitions', hres.generated)
        htraces = header_traces(states, rng)
        d = scratch.sub('d')
        tlc.prepare(d, ['Lines'], {'batch.json': json.dumps({'traces': htraces})})
        r3 = tlc.run(d, 'Lines', 'SPECIFICATION Spec\n', workers=1, timeout=600, heap='3g')
        summ = r3.printed('SUMMARY')
        if not summ:
            raise tlc.TLCError('Lines (decode) did not finish: ' + r3.out[-1500:])
        by = {t['id']: t for t in htraces}
        for r in r3.printed('REJECT'):
            t = by[r[1]]
            if r[3].startswith('drift:'):
                if len(out.drift) < 5:
                    out.drift.append('Lines.HeaderEncoding disagrees with CPython on %s' % t['bytes'])
                continue
            out.violation(r[3] + ('|' + t.get('exc', '') if t.get('exc') else ''), 'Lines.' + r[3],
                          {'bytes': t['bytes'], 'l1': t['l1'], 'l2': t['l2'], 'bom': t['bom']},
                          {'kind': 'decode', 'bytes': t['bytes']})
        for part in (r1, r2):
            out.add('states', part['states'])
            out.add('transitions', part['generated'])
            for rej in part['rejected']:
                r = rej['reject']
                tr = rej['trace'] or {}
                out.violation(r[3], 'Lines.' + r[3], {'text': tr.get('text')}, {'kind': 'lines', 'text': tr.get('text')})
        out.add('states', r3.distinct)
        out.add('transitions', r3.generated)
        refok = sum(1 for t in htraces if t['refok'])
        out.cov(traces_validated_against_impl=r1['accepted'] + r2['accepted'] + summ[-1][1],
                evaluations=r1['n'] + r2['n'] + len(htraces),
                distinct_nontrivial=r1['nontrivial'] + sum(1 for t in htraces if t['nontrivial']),
                separator_strings=len(strs), separator_bound=n, exhaustive=True, code_points=len(cpts),
                header_states=len(states), header_byte_strings=len(htraces), header_reference_decodable=refok,
                rule='lines: every string <= bound over {a, \\n, \\r, \\f, \\v, FS, GS, RS, NEL, U+2028, U+2029} (TLC Strings) '
                     '+ one trace per code point; decode: every abstract header of Headers x 2 endings x 2 newline styles, '
                     'rendered with random spelling templates; reference = tokenize.detect_encoding + decode of the running '
                     'CPython; non-trivial = more than one character / a first line exists')
        out.sample({'lines': repr(strs[len(strs) // 3])})
        out.sample({'header': htraces[len(htraces) // 2]['bytes']})
        out.assumptions += ['CPython reference = tokenize.detect_encoding of the interpreter running the harness (3.12)',
                            'header newlines are \\n and \\r\\n (bare \\r is read as one line by the reference readline)']
    finally:
        scratch.cleanup()
    return out


def replay(path):
    d = json.load(open(path))
    print(d)
    return 0
