"""Shared machinery of C16 / C17: TLC runs of the Cache spec, replay of its histories into the real cache
(harness/fsim.py), validation of the recorded events by TLC against CacheTrace."""
import json
import os
import re

from harness import fsim, tlc
from harness.common import BUILD

ALL_ENV = ['Tick', 'Write', 'Restart', 'Evict', 'RemoveFile', 'Damage', 'OtherCall', 'Crash']
INVS = ['Transparent', 'NoForeign', 'NeverFails']


def cfg(envset=ALL_ENV, paths='{p1}', grammars='{g1}', dirs='{d1}', contents='{a, b, c}', maxclock=5, maxcalls=3,
        faults=1, hist=False, stat_before_read=True, compare_ct=True, tolerant=True, invs=INVS, diffmodes='{FALSE, TRUE}'):
    b = lambda x: 'TRUE' if x else 'FALSE'  # noqa
    s = '''SPECIFICATION Spec
CONSTANTS
 Paths = %s
 Grammars = %s
 Dirs = %s
 Contents = %s
 InitC = a
 MaxClock = %d
 MaxCalls = %d
 MaxFaults = %d
 StatBeforeRead = %s
 CompareChangeTime = %s
 TolerantLoad = %s
 Hist = %s
 EnvSet = {%s}
 DiffModes = %s
''' % (paths, grammars, dirs, contents, maxclock, maxcalls, faults, b(stat_before_read), b(compare_ct), b(tolerant),
       b(hist), ', '.join('"%s"' % e for e in envset), diffmodes)
    s += ''.join('INVARIANT %s\n' % i for i in invs)
    if hist:
        s += 'INVARIANT Emit\n'
    return s


def model_check(run_dir, **kw):
    tlc.prepare(run_dir, ['Cache'])
    workers = kw.pop('workers', 4)
    timeout = kw.pop('timeout', 1800)
    res = tlc.run(run_dir, 'Cache', cfg(**kw), workers=workers, timeout=timeout, heap='16g')
    return res


def histories(run_dir, simulate=None, seed=0, depth=80, **kw):
    """TLC-generated histories (exhaustive with Hist, or simulation)"""
    tlc.prepare(run_dir, ['Cache'])
    kw['hist'] = True
    res = tlc.run(run_dir, 'Cache', cfg(**kw), workers=2 if simulate else 4, timeout=900,
                  simulate=('num=%d' % simulate) if simulate else None, depth=depth if simulate else None,
                  seed=seed if simulate else None, heap='8g')
    seen = set()
    out = []
    for h in res.printed('HIST'):
        k = json.dumps(h[1])
        if k not in seen:
            seen.add(k)
            out.append(h[1])
    return out, res


def counterexample_history(res):
    """the action sequence of a TLC counterexample trace, in history form"""
    hist = []
    for m in re.finditer(r'^State \d+: <(\w+)(?:\(([^)]*)\))? line', res.out, re.M):
        name, params = m.group(1), m.group(2)
        if name == 'Initial':
            continue
        hist.append([name] + ([p.strip() for p in params.split(',')] if params else []))
    return hist


def _replay_chunk(args):
    chunk, tag, trig = args
    traces = []
    drift = []
    root = os.path.join(BUILD, 'world-%d' % os.getpid())
    for i, h in chunk:
        # every third history runs with the eviction trigger lowered to 2 entries
        ev, dr = fsim.replay(root, h, size_trigger=trig if trig else (2 if i % 3 == 0 else None))
        traces.append({'id': i + 1, 'init': 'a', 'events': ev, 'kind': tag, 'hist': h})
        drift += dr[:1]
    return traces, drift


def replay_all(hists, tag, start_id=0, size_trigger=None):
    """replay histories into the real cache (in worker processes); returns traces for CacheTrace and drift"""
    import concurrent.futures
    from harness.common import NCPU, chunks
    idx = list(enumerate(hists, start_id))
    if len(idx) < 40:
        return _replay_chunk((idx, tag, size_trigger))
    traces, drift = [], []
    with concurrent.futures.ProcessPoolExecutor(max_workers=NCPU) as ex:
        for tr, dr in ex.map(_replay_chunk, [(c, tag, size_trigger) for c in chunks(idx, NCPU * 2)]):
            traces += tr
            drift += dr
    traces.sort(key=lambda t: t['id'])
    return traces, drift


def validate(run_dir, traces):
    slim = [{'id': t['id'], 'init': t['init'], 'events': t['events']} for t in traces]
    tlc.prepare(run_dir, ['CacheTrace'], {'batch.json': json.dumps({'traces': slim})})
    res = tlc.run(run_dir, 'CacheTrace', 'SPECIFICATION Spec\n', workers=1, timeout=600)
    summ = res.printed('SUMMARY')
    if not summ:
        raise tlc.TLCError('CacheTrace did not finish:\n' + res.out[-2000:])
    by = {t['id']: t for t in traces}
    rej = [{'reject': r, 'trace': by.get(r[1])} for r in res.printed('REJECT')]
    return summ[-1][1], rej, res
