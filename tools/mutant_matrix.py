#!/usr/bin/env python3
"""Apply every seeded change to /repo (or $PARSO_REPO) in turn, run the quick checks named in its meta.json, revert, and record
what each check reported (seeded/matrix.json).  /repo must be clean and nothing else may use it meanwhile."""
import glob
import json
import os
import re
import subprocess
import sys

VERIF = os.path.dirname(os.path.dirname(os.path.abspath(__file__)))
REPO = os.environ.get('PARSO_REPO', '/repo')    # a scratch worktree when run from a scratch copy of /verif
only = sys.argv[1:]
res = {}
mpath = os.path.join(VERIF, 'seeded', 'matrix.json')
if os.path.exists(mpath):
    res = json.load(open(mpath))
assert not subprocess.run(['git', '-C', REPO, 'status', '--porcelain', '-uno'], stdout=subprocess.PIPE).stdout.strip(), \
    '/repo is not clean'
for d in sorted(glob.glob(os.path.join(VERIF, 'seeded', 'C*'))):
    name = os.path.basename(d)
    if only and not any(name.startswith(o) for o in only):
        continue
    meta = json.load(open(os.path.join(d, 'meta.json')))
    checks = meta.get('caught_by') or sorted({m.group(1) for c in meta['checks_run'] for m in [re.search(r'check (C\d\d)', c)] if m})
    subprocess.run(['git', '-C', REPO, 'apply', os.path.join(d, 'patch.diff')], check=True)
    try:
        row = {}
        for c in checks:
            p = subprocess.run([os.path.join(VERIF, 'check'), c, 'quick'], stdout=subprocess.PIPE, stderr=subprocess.STDOUT,
                               cwd=VERIF, env=dict(os.environ, VERIF_NO_EVIDENCE='1'))
            txt = p.stdout.decode('utf-8', 'replace')
            clauses = sorted(set(re.findall(r'^\s+clause=(\S+)', txt, re.M)))
            row[c] = {'rc': p.returncode, 'violations': len(re.findall(r'^VIOLATION ', txt, re.M)), 'clauses': clauses[:6]}
            print(name, c, row[c], flush=True)
        res[name] = row
    finally:
        subprocess.run(['git', '-C', REPO, 'checkout', '--', '.'], check=True)
    json.dump(res, open(mpath, 'w'), indent=1, sort_keys=True)
