#!/bin/bash
# usage: tools/try_mutant.sh <patch.diff> <check-id>...   applies the patch to /repo, runs the quick checks, undoes it
set -u
patch=$(readlink -f "$1"); shift
cd /repo || exit 2
if ! git diff --quiet; then echo "/repo has uncommitted changes"; exit 2; fi
if ! git apply --check "$patch" 2>/dev/null; then echo "patch does not apply"; exit 2; fi
git apply "$patch"
cd /verif
for c in "$@"; do
  out=$(VERIF_SEED=${VERIF_SEED:-0} ./check "$c" ${TIER:-quick} 2>&1)
  rc=$?
  echo "== $c rc=$rc $(echo "$out" | grep -c '^VIOLATION') violation line(s)"
  echo "$out" | grep -E "^  clause=" | head -3 | cut -c1-260
  echo "$out" | grep -E "MACHINERY|Traceback" | head -3
done
git -C /repo checkout -- . 
git -C /repo status --short | head -3
