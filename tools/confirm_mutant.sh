#!/bin/bash
# usage: tools/confirm_mutant.sh <worktree dir> <seeded id>
# confirms in the scratch worktree: suite passes with the change, demo fails with it and passes without it; then
# stores patch.diff + demo.py under /verif/seeded/<id>/
set -u
d=$1; id=$2
cd "$d" || exit 2
git diff -- parso > patch.diff
test -s patch.diff || { echo "empty patch"; exit 2; }
where=$(PYTHONPATH=$d /venv/bin/python -c "import parso; print(parso.__file__)")
case "$where" in "$d"/*) ;; *) echo "wrong parso: $where"; exit 2;; esac
suite=$(PYTHONPATH=$d timeout 900 /venv/bin/python -m pytest -q -p no:cacheprovider 2>&1 | tail -1)
PYTHONPATH=$d timeout 300 /venv/bin/python demo.py > /tmp/demo_with.txt 2>&1; with=$?
git apply -R patch.diff
PYTHONPATH=$d timeout 300 /venv/bin/python demo.py > /tmp/demo_without.txt 2>&1; without=$?
git apply patch.diff
echo "suite: $suite | demo with change: exit $with | without: exit $without"
if echo "$suite" | grep -q "1987 passed" && [ "$with" -ne 0 ] && [ "$without" -eq 0 ]; then
  mkdir -p /verif/seeded/$id && cp patch.diff demo.py /verif/seeded/$id/ && echo "CONFIRMED -> /verif/seeded/$id"
else
  echo "NOT CONFIRMED"; tail -5 /tmp/demo_with.txt
fi
