#!/bin/bash
# usage: tools/try_mutant_wt.sh <patch.diff> <check-id>...
# like try_mutant.sh but leaves /repo and /verif alone: the patch is applied to a scratch worktree of /repo's HEAD
# and the checks run from a scratch copy of /verif with PARSO_REPO pointing at that worktree.
set -u
patch=$(readlink -f "$1"); shift
tag=${WT_TAG:-try}
wt=/tmp/wt/$tag; vt=/tmp/vt_$tag
mkdir -p /tmp/wt
if [ ! -d "$wt" ]; then git -C /repo worktree add -q --detach "$wt" HEAD || exit 2; fi
git -C "$wt" checkout -q --detach "$(git -C /repo rev-parse HEAD)" || exit 2
git -C "$wt" checkout -- . 
rsync -a --delete --exclude build --exclude .git /verif/ "$vt"/
if ! git -C "$wt" apply --check "$patch" 2>/dev/null; then echo "patch does not apply"; exit 2; fi
git -C "$wt" apply "$patch"
cd "$vt"
for c in "$@"; do
  out=$(PARSO_REPO=$wt VERIF_SEED=${VERIF_SEED:-0} ./check "$c" ${TIER:-quick} 2>&1)
  rc=$?
  echo "== $c rc=$rc $(echo "$out" | grep -c '^VIOLATION') violation line(s)"
  echo "$out" | grep -E "^  clause=" | head -3 | cut -c1-260
  echo "$out" | grep -E "MACHINERY|Traceback|MODEL-DRIFT" | head -3 | cut -c1-260
done
git -C "$wt" checkout -- .
