#!/usr/bin/env python3
"""Regenerates MANIFEST.json from the table below (single place to edit)."""
import json
import os

HERE = os.path.dirname(os.path.dirname(os.path.abspath(__file__)))
MC = 'model_checking'

CHECKS = {
    'C01': dict(level=MC, tech='TLA+ A-spec Tree (LeavesTile/NodeCodeIsSlice) + TLC trace validation of real trees',
                text='Every tree the real parser returns for TLC-enumerated strings (three alphabets), class walks, token-pool '
                     'strings, corpus chunks and mutations, in all 9 grammar versions, for str and bytes input, is serialised '
                     'and validated by TLC against the Tree.C01 clauses: leaves tile the input, every node\'s get_code() is '
                     'the slice it spans, the root\'s code is the input. The standard text set also holds the indentation-shape programs (IndentShapes), string-literal shapes (StrLits), escape literals, one sentence through every DFA arc of every grammar (two-level arc cover) and rendered FStringB lexeme lines; the token half (TokenStream.Tiles) runs on the full f-string enumeration.',
                note='TLC, the JSON recorder layer (logs values only); bytes input uses UTF-8 text without a coding cookie '
                     '(decoding is C15).', ref='2.4, 3 C01'),
    'C02': dict(level=MC, tech='TLA+ B-spec ParserB (NeverCrash, exhaustive over token streams) + Tree.C02 shape clauses on real trees',
                text='Real recovering parser run on the standard text set and on depth probes (28 recursive constructs nested '
                     'exactly 100 deep x 9 versions): any exception is a rejected trace; every returned tree is validated by '
                     'TLC against Tree.C02 (root without parent, ends in endmarker, no empty interior node, string leaves). Plus termination probes: 27 long single tokens / flat runs (40-400 digit literals, 20 000-character names, 90 000-character strings, 20 000 operators ...) parsed in a child process under a time limit (clause Terminates).',
                note='TLC; recorder; nesting bound 100 as stated in the property.', ref='2.3, 2.4, 3 C02'),
    'C03': dict(level=MC, tech='TLA+ A-spec Tree (position clauses from PosTable over the input) + TLC trace validation',
                text='start_pos/end_pos/get_start_pos_of_prefix of every leaf and node of real trees are compared by TLC with '
                     'positions recomputed from the input text alone (only \\n, \\r\\n, \\r break lines; leading BOM zero width; '
                     'zero-width indentation error leaves sit at the next real leaf).',
                note='TLC; recorder.', ref='2.4, 3 C03'),
    'C04': dict(level=MC, tech='TLA+ generator EditHistory (TLC enumerates/simulates edit histories) + A-spec DiffTrace evaluated by TLC on the replayed histories; final trees through Tree',
                text='Every single edit of base documents (exhaustive over a sub-pool) and simulated 6-edit histories with undo, '
                     'BOM and newline toggles are rendered (LF/CRLF, 2/4-space) and fed to parse(diff_cache=True); after every '
                     'update TLC checks: no exception, code = new text, dump = dump of a fresh parse, used-names index equals '
                     'the fresh one (index warmed before each update), plus diagnostic clauses on the copy/parse log; the final '
                     'tree of each history satisfies the Tree clauses (tiling, positions, parent links). Histories are also rendered with bare-CR line ends.',
                note='TLC; Fresh = the real non-incremental parser; copy/parse events come from the existing LOG.debug lines '
                     '(diagnostic only, reported as MODEL-DRIFT).', ref='2.6, 3 C04'),
    'C05': dict(level=MC, tech='TLA+ B-spec ParserB (NodesConform at every closing node) + ConformTrace: TLC validates every node of real trees against the position automaton of the rule text',
                text='ParserB (the parser engine transcribed on the real exported tables) is run by TLC on simulated valid / '
                     'broken / arbitrary token streams with NodesConform checked in every state; the streams are rendered to '
                     'text and, together with the standard text set, parsed by the real parser; TLC validates every non-error '
                     'node of every real tree against the grammar text of its version (ConformTrace) under explicitly stated '
                     'conventions; error nodes/leaves are accepted only in statement/block slots.',
                note='TLC; EBNF reader; conventions listed in specs/ConformTrace.tla; ParserB-vs-real disagreement is reported '
                     'as MODEL-DRIFT, never as a violation.', ref='2.3, 2.4, 3 C05'),
    'C06': dict(level=MC, tech='TLA+ B-spec ParserB in generative (valid) mode: TLC enumerates sentences with derivations; replayed into the real strict and recovering parsers',
                text='TLC enumerates every sentence of file_input and eval_input up to 4 (quick) / 5 (thorough) tokens with its '
                     'derivation, plus simulated long sentences; each is rendered (two spellings) and the real strict parser '
                     'must accept it and return exactly that derivation (after the documented conventions); the recovering '
                     'parser must return the identical tree without error nodes. Also: one sentence through every arc of every DFA reachable from the start rule (two-level arc cover, all 9 versions), NAME tokens spelled as keyword look-alikes (prefixes, compatibility characters whose NFKC form is a keyword), and right-recursive rules pumped past the interpreter\'s recursion limit (strict and recovering parse must return and tile the text).',
                note='TLC; token classes (one representative per class with identical plans); renderer is self-checking '
                     '(re-tokenised).', ref='2.3, 3 C06'),
    'C07': dict(level=MC, tech='TLA+ Tree.C07 clauses evaluated by TLC on paired strict/recovering runs of the real parser; ParserB FilterInert/StrictNeverRecovers exhaustive',
                text='On every text of the standard set and of rendered ParserB behaviours both real parsers are run; TLC '
                     'checks: strict raises iff the recovered tree has an error node/leaf, identical trees otherwise, strict '
                     'error leaf = first error in leaf order (value and position). Design: ParserB explored exhaustively in '
                     'both modes (DEDENT filter inert before first error; strict mode never touches recovery state).',
                note='TLC; a DEDENT that triggers the error is a virtual token absent from the tree: position only.',
                ref='2.3, 3 C07'),
    'C08': dict(level=MC, tech='TLA+ spec Pgen/Ebnf (bisimulation with the position automaton of the grammar text, FIRST fixpoint, LL(1) verdict) checked by TLC on the exported real tables; GrammarEnum enumerates small grammars',
                text='Exhaustive for the 9 shipped grammars (every rule, every DFA state, every plan entry, re-exported from the '
                     'live objects on every run): language equality of each real DFA with the rule text (SameFinal/SameArcs '
                     'over the reachable product), token->plan tables exactly as specified (PlansExact, NoTokenTwice). '
                     'Plus every small grammar TLC enumerates (GrammarEnum) through the real generate_grammar: accepted '
                     'exactly when LL(1), rejected with ambiguity/left-recursion errors otherwise, tables checked as above. Plus every loop (star / plus) around a nullable body of depth <= 2 followed by a terminal, and enumerated grammars with the terminals respelled occurrence by occurrence (other quote, hex / unicode / octal escapes).',
                note='TLC; the independent EBNF reader harness/ebnf.py; nullable rules excluded as outside the property.',
                ref='2.2, 3 C08'),
    'C09': dict(level=MC, tech='TLA+ A-spec TokenStream + TLC trace validation of real token streams; Tree.C09 for prefix splitting',
                text='Token streams of the real tokenize() for every string TLC enumerates (general alphabet <=3, f-string '
                     'alphabet <=4 after an f-string start, indentation alphabet <=4), class walks, pool strings, corpus chunks '
                     'and mutations are validated by TLC against TokenStream (Tiles, TruePos, Balanced, OneEndmarker, PurePrefix, '
                     'NeverFails); leaves of parse() against PurePrefix/SplitPrefix*. Every 5th item first abandons a token stream inside an indented block (state left behind by an earlier stream). Four B-specs model the tokenizer\'s sub-machines - TokenizerB (indentation / brackets / newlines, lexeme at a time), FStringB (f-strings, line at a time), ContStrB (ordinary / triple-quoted / continued strings), PrefixB (split_prefix): their design invariants are model-checked, real token streams / prefix parts are validated against their predictions and their simulated runs are replayed into the real tokenizer; a disagreement is reported as MODEL-DRIFT, a raise of the real function as a violation.',
                note='TLC; recorder. The binding is demonstrated on every run (five corrupted traces must be rejected).',
                ref='2.1, 3 C09'),
    'C10': dict(level='exploration', tech='TLA+ relation TokenAgreement (spec Relational) evaluated by TLC on (CPython V tokenize, parso tokenize) pairs; programs from corpus, mutations and ParserB sentences',
                text='For programs interpreter V compiles and tokenizes without ERRORTOKEN (stdlib chunks of V, their token-level '
                     'mutations, rendered grammar sentences from ParserB) the significant-token projection of CPython\'s stream '
                     'must equal the merged projection of parso\'s (type class, exact text, line/column; f-strings as one string '
                     'located by its start; INDENT at CPython\'s end; closing DEDENTs and ENDMARKER by type). The projections and '
                     'the comparison are written in TLA+; the explored set is sampled, hence exploration. Plus TLC-enumerated numeric, string-literal, escape and layout strings (names, brackets, line ends, comments, continuations, indentation, \';\': all strings of <= 4 symbols). Programs that tokenize but do not compile are used when the reference is the C tokenizer (3.12+), the compile error is parser-level and no token is a pass-through artefact.',
                note='CPython interpreters 3.6-3.13 (3.14 judged by 3.13); programs with a bare \\r are skipped (readline-based '
                     'reference).', ref='2.10, 3 C10'),
    'C11': dict(level=MC, tech='TLA+ A-spec Tree (navigation and LeafForPosition clauses) + TLC trace validation',
                text='For every node of real trees the results of parent, get_root_node, first/last leaf, next/previous leaf, '
                     'next/previous sibling and search_ancestor, and for every (line, col) of the text the result of '
                     'get_leaf_for_position (both include_prefixes values; ValueError outside the file) are compared by TLC with '
                     'the definitions derived from child lists and leaf order.',
                note='TLC; recorder; positions sampled above 160 (quick) / 400 (thorough) per text.', ref='2.4, 3 C11'),
    'C12': dict(level='exploration', tech='TLA+ generator SemCtx (context stacks x statement templates, TLC-enumerated) + relation NoFalseErrors (spec Relational) evaluated by TLC; oracle = compile() of CPython V and 3.8',
                text='Every (context stack <= 2/3 frames, statement) pair of SemCtx rendered from templates, stdlib chunks, mutations '
                     'and ParserB sentences, each kept iff interpreter V compiles it: (a) if 3.8 compiles it too, parso must produce no '
                     'error node and no issue; (b) without error nodes there must be no issue. Eleven genuine false positives found '
                     'this way are listed as known findings keyed by message / shape. All (context, statement) pairs of depth <= 1 are always kept; the literal and layout enumerations of C10 are judged too.',
                note='CPython interpreters as oracle; message-keyed known findings (identifier names normalised).', ref='2.10, 3 C12'),
    'C13': dict(level=MC, tech='TLA+ A-spec Issues (kind errors) evaluated by TLC on recorded iter_errors() results paired with the serialised tree',
                text='For every text (standard set + ParserB sentences-with-errors and arbitrary token streams) iter_errors is called '
                     'twice on the real tree; TLC checks: no exception, tree dump unchanged, both lists equal, codes 901/903 with '
                     'matching message prefix, ranges inside the file, one issue per line, every error leaf line and every '
                     'outermost error node next-token line carries an issue, non-empty when strict parsing fails. The second listing of every tree is made in a reversed second pass over the shard; the same text is also listed after an incremental re-parse that follows an earlier listing on the old tree (three kinds of edits) and after a pickle round trip (clause IndependentOfEarlierCallsAndProvenance); SemCtx programs are part of the text set.',
                note='TLC; recorder. One systematic exception is a known finding (f-string error nodes, versions >= 3.9).',
                ref='2.5, 3 C13'),
    'C18': dict(level=MC, tech='TLA+ spec Threads (all interleavings with <= 3 preemptions, TLC) whose schedules are imposed on real threads by a deterministic scheduler; ThreadTrace evaluated by TLC on the recorded runs',
                text='TLC explores every interleaving of two threads\' accesses to the shared memo tables and private steps with at '
                     'most 3 preemptions, checks the publication claims and prints every schedule; each schedule is imposed on real '
                     'threads (preemption at token / pop / recovery / leaf-visit / memo-access granularity, cold runs start from '
                     'emptied memo tables); TLC checks on the recorded runs that every result equals the same call in a fresh '
                     'interpreter and that the structural fingerprint of all shared state is unchanged after first use; plus all '
                     'sequential first-use orders of three versions. Plus: call histories (90 small programs through a warm grammar in 4-12 orders), interpreter-wide settings (recursion limit, switch interval, gc) sampled at every yield point, and first-use probes at line granularity (a thread stopped before every call and line inside load_grammar / _get_token_collection from a cold state while the other thread runs to completion).',
                note='TLC; settrace-based scheduler (one runnable thread at a time); fingerprint summarises object sets by member '
                     'types; generated tables are unique only up to state numbering, so cold states are judged by stability.',
                ref='2.8, 3 C18'),
    'C19': dict(level=MC, tech='TLA+ A-spec Tree (C19 clauses: table equality after round trips, Splice) evaluated by TLC on recorded round trips and refactor results',
                text='For every tree of the standard text set: the tree after pickle.loads(dumps) and after eval(dump(indent)) is '
                     're-serialised and compared by TLC field by field (class, type, token type, value, prefix, positions, '
                     'parent, children, code); dump() of all six indent styles evaluates to trees with identical dumps; '
                     'Grammar.refactor with the empty map and with random maps of <= 3 disjoint nodes equals the splice of the '
                     'input computed by the spec from the nodes\' spans.', note='TLC; recorder.', ref='2.4, 3 C19'),
    'C20': dict(level=MC, tech='TLA+ A-spec Issues (kind pep8) evaluated by TLC on recorded _get_normalizer_issues() results, four configurations, three provenances',
                text='PEP 8 issue lists of real trees (standard set + ParserB behaviours) under four configurations, called '
                     'twice, and for the same text parsed fresh / re-parsed incrementally / unpickled; TLC checks: no exception, '
                     'tree unchanged, deterministic, numeric code + message, range inside the file with non-negative columns, no '
                     'duplicate (code, start), identical across provenances, W292 exactly when an error-free text lacks a final '
                     'line break. Incremental provenances list the issues of the old tree before the update (state cached on reused leaves).',
                note='TLC; recorder. Crashes of the (unfinished) indentation-stack logic are listed as known findings by crash site.',
                ref='2.5, 3 C20'),
    'C14': dict(level='exploration', tech='TLA+ generators Bindings / SemCtx (TLC-enumerated) + relation FactsVerdict (spec Relational) evaluated by TLC on (parso helper facts, CPython ast facts) pairs',
                text='For the binding-construct x target-shape x context matrix, SemCtx statements and whole stdlib modules (kept iff '
                     'CPython parses them and parso has no error node) nine kinds of facts - definitions by position, per-scope '
                     'functions/classes/imports, parameters (name, star kind, default, annotation), return annotation, '
                     'generator-ness, return and raise statements, import paths/levels/aliases/star, docstring node - are extracted '
                     'from parso\'s helpers and from the ast; TLC requires the fact sets to be equal kind by kind. Plus PEP 695 headers, multi-name imports, the FlowMatrix (statement x one or two nested flow containers x function kind, incl. the looked-for words as plain text) and the clause FactsStableAcrossQueries: the facts extracted again after every helper was called with its non-default flags are the same.',
                note='CPython ast of the interpreter running the harness; docstrings that are not one plain literal are outside the '
                     'claim; the fact extractors (harness/facts.py) are trusted.', ref='2.10, 3 C14'),
    'C15': dict(level=MC, tech='TLA+ spec Lines (line scanner + PEP 263 header decision) evaluated by TLC on real split_lines / python_bytes_to_unicode results; generators Strings and Headers enumerated by TLC',
                text='Exhaustive in the abstract alphabets: every string up to 5 (quick) / 6 (thorough) over all str.splitlines '
                     'separators plus an ordinary character, and one trace per code point, validated against the TLA+ scanner '
                     'and its laws (>= 1 line, joins back, only \\n \\r\\n \\r split, keepends on/off, line count = breaks + 1 = '
                     'module end line); every abstract two-line header (7 line classes x 6 encodings x BOM x 3 bodies) rendered to '
                     'bytes: parso must give the text CPython gives whenever CPython can decode it. Headers now have an optional third line that mentions an encoding (must be ignored), are rendered with LF / CRLF / bare CR, 9 encodings (incl. utf-8-unix, Latin_1-dos, iso-8859-10/15) and 4 bodies (incl. bytes on which the iso-8859-N codecs differ); the reference reads lines with universal newlines.',
                note='TLC; CPython reference = tokenize.detect_encoding + decode of the interpreter running the harness.',
                ref='2.9, 3 C15'),
    'C16': dict(level=MC, tech='TLA+ spec Cache (one action per step of the cache protocol + environment) model-checked by TLC; its histories replayed into the real cache (virtual clock, preemption at file operations) and validated by TLC against CacheTrace',
                text='TLC checks Transparent/NoForeign on every reachable state of the Cache protocol (writes, time, restarts, a '
                     'second process, eviction, removed/damaged pickles; up to 2 paths x 2 grammars x 2 dirs) and confirms that '
                     'the pre-repair protocols are violated. All behaviours of three race-focused environments, the '
                     'counterexamples of the old protocols and simulated histories are replayed into the real code with real '
                     'files; TLC validates every recorded Return against the contents the file had during the call. Plus 4-call two-path histories replayed with the in-memory gc trigger lowered to 2, and 15 scenarios on the real file layer (plain path / symbolic link / link to a link / hard link / relative path x memory kept / fresh process / diff_cache).',
                note='TLC; fsim replay layer (one virtual clock domain; second process emulated by swapping parser_cache, its call '
                     'atomic); mtime granularity: every write is observable as a newer mtime.', ref='2.7, 3 C16'),
    'C17': dict(level=MC, tech='TLA+ spec Cache with Damage/CrashInStore model-checked by TLC (NeverFails); fault enumeration on the real cache validated by TLC against CacheTrace',
                text='Design: NeverFails/Transparent with damaged pickles and crashes during store in every reachable state; the '
                     'intolerant-load protocol is violated. Code: truncation offsets of real pickles, a corruption set, leftover '
                     'and missing files/directories, OSError injected at each of 12 file operations in 3 phases, the 30-day '
                     'clean-up with its lock file, and TLC histories with Damage/Crash: every call must return the current tree, '
                     'the next fresh process must be served from the repaired pickle, clean-up must spare entries accessed '
                     'within 30 days. The clean-up scenario combines every access age with a fresh and a 400-day-old modification time and contains an empty entry that another process is writing.',
                note='TLC; fault wrappers in parso.cache namespace; bit flips excluded; read-only directories emulated by '
                     'injected PermissionError.', ref='2.7, 3 C17'),
}

NOT_YET = {}

ALL = ['C%02d' % i for i in range(1, 21)]


def main():
    checks = []
    for pid in ALL:
        if pid not in CHECKS:
            continue
        c = CHECKS[pid]
        checks.append({
            'property_id': pid,
            'quick_cmd': './check %s quick' % pid,
            'thorough_cmd': './check %s thorough' % pid,
            'evidence_file': 'evidence/%s.json' % pid,
            'replay_cmd_template': './check %s --replay {path}' % pid,
            'engine': 'tlc',
            'level_claimed': {'category': c['level'], 'text': c['text'], 'design_ref': c['ref']},
            'level_note': c['note'],
            'technique': c['tech'],
        })
    na = [{'property_id': pid, 'reason': NOT_YET.get(pid, 'check not built yet (build order in DESIGN.md section 5); '
                                                      'will be decided by a TLA+ spec + TLC + conformance like the others')}
          for pid in ALL if pid not in CHECKS]
    m = {
        'version': 1,
        'setup_cmd': './setup.sh',
        'hooks': {'guard': 'PARSO_VERIF',
                  'enable': 'no source hooks: parso is observed through its public API, file_io= injection, generator '
                            'frames and run-time wrappers installed by the harness process (PARSO_VERIF is reserved)',
                  'baseline_off_cmd': 'cd /repo && /venv/bin/python -m pytest -q -p no:cacheprovider',
                  'source_commits': [], 'add_only': True},
        'engines': [{'name': 'tlc', 'path': '/opt/veriftools/tla/tla2tools.jar',
                     'serves_properties': [c['property_id'] for c in checks],
                     'kind_free_text': 'TLC 1.8 model checker: explores the B-specs, enumerates generator specs, and '
                                       'validates batches of traces recorded from the real code against the A-specs'}],
        'checks': checks,
        'not_applicable': na,
        'notes': 'Specs in specs/, harness in harness/, per-property drivers in checks/. Genuine defects: known_findings.json.',
    }
    with open(os.path.join(HERE, 'MANIFEST.json'), 'w') as f:
        json.dump(m, f, indent=1)
    print('MANIFEST.json: %d checks, %d not applicable' % (len(checks), len(na)))


if __name__ == '__main__':
    main()
