"""Shard recorders (run in worker processes). Work item: [id, text, version, origin]."""
import random

from . import record
from .common import cps

ANC_TYPES = [('suite', 'file_input'), ('funcdef', 'classdef', 'lambdef'), ('error_node',), ('no_such_type',),
             ('simple_stmt', 'expr_stmt', 'atom', 'trailer', 'arglist')]


def rec_tokens(items, opts):
    out = []
    for tid, text, ver, origin in items:
        t = record.token_trace(tid, text, ver)
        t['origin'] = origin
        t['nontrivial'] = len(t['toks']) > 1
        out.append(t)
    return out


def rec_trees(items, opts):
    """opts: nav, parts, posq (max number of positions, 0 = none), code_budget, bytes (encode the text and parse bytes)"""
    out = []
    rng = random.Random(opts.get('seed', 0))
    for tid, text, ver, origin in items:
        tr = {'id': tid, 'ver': ver, 'origin': origin, 'inp': cps(text), 'nodes': [], 'posq': [],
              'raised': False, 'exc': '', 'nontrivial': False}
        try:
            src = text
            if opts.get('bytes'):
                src = text.encode('utf-8')
            g, m = record.parse(src, ver)
            nodes, excs, order = record.tree_table(
                m, nav=opts.get('nav', True), parts=opts.get('parts', True),
                code_budget=opts.get('code_budget', 60000),
                anc_types=ANC_TYPES if opts.get('anc') else ())
            tr['nodes'] = nodes
            tr['exc'] = ';'.join(sorted(set(excs)))
            if opts.get('posq'):
                tr['posq'] = record.position_queries(m, text, opts['posq'], rng)
            tr['nontrivial'] = any((not n['leaf'] and i > 0) or n['type'] in ('error_leaf',)
                                   for i, n in enumerate(nodes))
        except Exception as e:  # noqa
            tr['raised'] = True
            tr['exc'] = record.exc_key(e)
        out.append(tr)
    return out
