"""Shard recorders (run in worker processes). Work item: [id, text, version, origin]."""
import random

from . import record
from .common import cps

ANC_TYPES = [('suite', 'file_input'), ('funcdef', 'classdef', 'lambdef'), ('error_node',), ('no_such_type',),
             ('simple_stmt', 'expr_stmt', 'atom', 'trailer', 'arglist')]


def rec_tokens(items, opts):
    """every 5th trace is recorded right after another token stream was abandoned half-way (a caller that stops
    iterating, e.g. a strict parse that raised): a token stream must not depend on what was tokenized before"""
    import itertools
    from parso.python.tokenize import tokenize as _tokenize
    from parso.utils import parse_version_string as _pvs
    out = []
    prev = 'class C:\n    def f(self):\n        if x:\n            return (\n'
    for n, (tid, text, ver, origin) in enumerate(items):
        if n % 5 == 0:
            try:
                gen = _tokenize(prev, version_info=_pvs(ver))
                k = max(1, len(prev) // 6)
                for _ in itertools.islice(gen, k):
                    pass
                del gen
            except Exception:  # noqa
                pass
        if len(text) > 8 and '\n' in text:
            prev = text
        t = record.token_trace(tid, text, ver)
        t['origin'] = origin
        t['nontrivial'] = len(t['toks']) > 1
        out.append(t)
    return out


_INTERN = {}


def intern(s):
    return _INTERN.setdefault(s, len(_INTERN) + 1)


def strict_run(g, text, recovered):
    """what error_recovery=False does on the same text (values only)"""
    from parso.parser import ParserSyntaxError
    aux = {'sraised': False, 'sval': [], 'ss': [0, 0], 'sdump': 0, 'rdump': intern(recovered.dump(indent=None)),
           'stt': ''}
    try:
        m2 = g.parse(text, error_recovery=False)
        aux['sdump'] = intern(m2.dump(indent=None))
    except ParserSyntaxError as e:
        aux['sraised'] = True
        aux['sval'] = cps(e.error_leaf.value)
        aux['ss'] = list(e.error_leaf.start_pos)
        tt = e.error_leaf.token_type
        aux['stt'] = getattr(tt, 'name', str(tt))
    return aux


_EVAL_NS = {}


def _eval_ns():
    if not _EVAL_NS:
        import parso.python.tree as pt
        import parso.tree as t
        for mod in (t, pt):
            for k in dir(mod):
                if not k.startswith('_'):
                    _EVAL_NS[k] = getattr(mod, k)
    return _EVAL_NS


INDENTS = [None, 0, 1, 4, '', '\t']
REPLACEMENTS = ['', 'X', 'new_text(1)', 'a\nb', '  # c\n', '\\\n']


def roundtrip(tr, g, m, text, order, opts, rng, tid):
    """C19 observations: pickle round trip, eval(dump(indent)) for every indent style, refactor with node maps"""
    import pickle
    aux = tr['aux']
    tbl_opts = dict(nav=opts.get('nav', False), parts=False, code_budget=opts.get('code_budget', 20000))

    def table(mod):
        nodes, excs, _ = record.tree_table(mod, **tbl_opts)
        return nodes
    try:
        m2 = pickle.loads(pickle.dumps(m))
        aux['rts'].append({'kind': 'pickle', 'nodes': table(m2)})
    except Exception as e:  # noqa
        aux['rts'].append({'kind': 'pickle-raised:' + record.exc_key(e), 'nodes': []})
    aux['dids'].append(intern(m.dump(indent=None)))
    full = INDENTS[tid % len(INDENTS)]
    for ind in INDENTS:
        try:
            m3 = eval(m.dump(indent=ind), dict(_eval_ns()))
            aux['dids'].append(intern(m3.dump(indent=None)))
            if ind == full:
                aux['rts'].append({'kind': 'evaldump:%r' % (ind,), 'nodes': table(m3)})
        except Exception as e:  # noqa
            aux['dids'].append(-1)
            aux['rts'].append({'kind': 'evaldump-raised:%r:%s' % (ind, record.exc_key(e)), 'nodes': []})
    # refactor: empty map, then up to 3 pairwise disjoint nodes
    n = len(order)
    trials = [[]]
    for _ in range(opts.get('refactors', 3)):
        k = rng.randint(1, 3)
        picked = []
        cand = list(range(1, n))         # never the root itself (index 0)
        rng.shuffle(cand)
        ends = record_sub_end(order)
        for c in cand:
            if len(picked) >= k:
                break
            if not hasattr(order[c], 'children') or order[c].children:
                if all(ends[c] < p or ends[p] < c for p in picked):
                    picked.append(c)
        trials.append(sorted(picked))
    for sel in trials:
        strs = [rng.choice(REPLACEMENTS) for _ in sel]
        try:
            got = g.refactor(m, {order[i]: s for i, s in zip(sel, strs)})
            aux['refs'].append({'sel': [i + 1 for i in sel], 'strs': [cps(s) for s in strs], 'got': cps(got)})
        except Exception as e:  # noqa
            aux['refs'].append({'sel': [i + 1 for i in sel], 'strs': [cps(s) for s in strs], 'got': [-2]})
            tr['exc'] = record.exc_key(e)


def record_sub_end(order):
    """index of the last node of each node's subtree (pre-order positions)"""
    pos = {id(n): i for i, n in enumerate(order)}
    ends = list(range(len(order)))
    for i in range(len(order) - 1, -1, -1):
        ch = getattr(order[i], 'children', None)
        if ch:
            ends[i] = ends[pos[id(ch[-1])]]
    return ends


def rec_trees(items, opts):
    """opts: nav, parts, posq (max number of positions, 0 = none), code_budget, bytes (encode the text and parse bytes)"""
    out = []
    rng = random.Random(opts.get('seed', 0))
    for tid, text, ver, origin in items:
        tr = {'id': tid, 'ver': ver, 'origin': origin, 'inp': cps(text), 'nodes': [], 'posq': [],
              'raised': False, 'exc': '', 'nontrivial': False,
              'aux': {'sraised': False, 'sval': [], 'ss': [0, 0], 'sdump': 0, 'rdump': 0, 'stt': '', 'rts': [], 'dids': [],
                      'refs': []}}
        try:
            src = text
            if opts.get('bytes'):
                src = text.encode('utf-8')
            g, m = record.parse(src, ver)
            nodes, excs, order = record.tree_table(
                m, nav=opts.get('nav', True), parts=opts.get('parts', True),
                code_budget=opts.get('code_budget', 60000),
                anc_types=ANC_TYPES if opts.get('anc') else ())
            tr['nodes'] = nodes
            tr['exc'] = ';'.join(sorted(set(excs)))
            if opts.get('modes'):
                tr['aux'].update(strict_run(g, text, m))
            if opts.get('roundtrip'):
                roundtrip(tr, g, m, text, order, opts, rng, tid)
            if opts.get('posq'):
                tr['posq'] = record.position_queries(m, text, opts['posq'], rng)
            tr['nontrivial'] = any((not n['leaf'] and i > 0) or n['type'] in ('error_leaf',)
                                   for i, n in enumerate(nodes))
        except Exception as e:  # noqa
            tr['raised'] = True
            tr['exc'] = record.exc_key(e)
        out.append(tr)
    return out


def rec_conform(items, opts):
    """light tree table for ConformTrace: type, leaf, tt, sv, kids, eof"""
    out = []
    for tid, text, ver, origin in items:
        tr = {'id': tid, 'ver': ver, 'origin': origin, 'text': text, 'nodes': [], 'raised': False, 'exc': '',
              'nontrivial': False}
        try:
            g, m = record.parse(text, ver)
            order = record.walk(m)
            idx = {id(n): i + 1 for i, n in enumerate(order)}
            # eof: everything after the node's last leaf is an endmarker or a zero-width layout error leaf
            leaves = [n for n in order if not hasattr(n, 'children')]
            tail_ok = [False] * len(leaves)
            ok = True
            for j in range(len(leaves) - 1, -1, -1):
                tail_ok[j] = ok      # are all leaves AFTER j ignorable?
                lf = leaves[j]
                ign = lf.type == 'endmarker' or (lf.type == 'error_leaf' and lf.token_type in
                                                 ('INDENT', 'DEDENT', 'ERROR_DEDENT'))
                ok = ok and ign
            lrank = {id(l): j for j, l in enumerate(leaves)}
            nodes = []
            for n in order:
                leaf = not hasattr(n, 'children')
                last = n if leaf else n.get_last_leaf()
                nodes.append({'type': n.type, 'leaf': leaf,
                              'tt': getattr(n, 'token_type', '') if leaf else '',
                              'sv': n.value if leaf and n.type in ('keyword', 'operator') else '',
                              'kids': [] if leaf else [idx[id(c)] for c in n.children],
                              'eof': tail_ok[lrank[id(last)]]})
            tr['nodes'] = nodes
            tr['nontrivial'] = any(not n['leaf'] for n in nodes[1:])
        except Exception as e:  # noqa
            tr['raised'] = True
            tr['exc'] = record.exc_key(e)
        out.append(tr)
    return out


def _issue_list(issues):
    out = []
    for i in issues:
        msg = i.message if isinstance(i.message, str) else ''
        code = i.code if isinstance(i.code, int) and not isinstance(i.code, bool) else -1
        out.append({'code': code, 'mp': msg.split(': ')[0] if ': ' in msg else msg[:40], 'ml': len(msg),
                    's': list(i.start_pos), 'e': list(i.end_pos)})
    return out


def _light_nodes(m):
    order = record.walk(m)
    idx = {id(n): i + 1 for i, n in enumerate(order)}
    nodes = []
    for n in order:
        leaf = not hasattr(n, 'children')
        nodes.append({'type': n.type, 'leaf': leaf, 'tt': getattr(n, 'token_type', '') if leaf else '',
                      'kids': [] if leaf else [idx[id(c)] for c in n.children], 'sp': 0,
                      's': list(n.start_pos) if (leaf or n.children) else [0, 0],
                      'e': list(n.end_pos) if (leaf or n.children) else [0, 0]})
    for i, nd in enumerate(nodes):
        for k in nd['kids']:
            nodes[k - 1]['sp'] = i + 1
    return nodes


def rec_issues(items, opts):
    """opts: kind 'errors' | 'pep8'; provenance (bool: also list issues for incrementally parsed and unpickled trees).
    The second listing of every tree is made in a second pass, in reverse order, after all the other trees of the
    shard have been listed: hidden state kept between calls shows up as a different second list."""
    import pickle
    from parso.python import pep8
    kind = opts['kind']
    out = []
    kept = []

    def make_listing(g):
        def listing(mod):
            if kind == 'errors':
                return list(g.iter_errors(mod))
            cfgname = opts.get('cfg', '')
            config = None
            if cfgname == 'i2':
                config = pep8.PEP8NormalizerConfig(indentation='  ')
            elif cfgname == 'tab':
                config = pep8.PEP8NormalizerConfig(indentation='\t')
            elif cfgname == 'short':
                config = pep8.PEP8NormalizerConfig(max_characters=20)
            return g._get_normalizer_issues(mod, config) if config else g._get_normalizer_issues(mod)
        return listing

    for tid, text, ver, origin in items:
        tr = {'id': tid, 'ver': ver, 'origin': origin, 'kind': kind, 'inp': cps(text), 'nodes': [], 'calls': [],
              'raised': False, 'exc': '', 'd0': 0, 'd1': 0, 'strict': False, 'prov': [], 'text': text,
              'fs39': tuple(int(x) for x in ver.split('.')) >= (3, 9), 'nontrivial': False, 'cfg': opts.get('cfg', '')}
        try:
            g, m = record.parse(text, ver)
        except Exception as e:  # noqa: parse failures belong to C02
            continue
        tr['nodes'] = _light_nodes(m)
        tr['d0'] = intern(m.dump(indent=None))
        listing = make_listing(g)
        try:
            tr['calls'].append(_issue_list(listing(m)))
        except Exception as e:  # noqa
            tr['raised'] = True
            tr['exc'] = record.exc_key(e)
        if kind == 'errors':
            try:
                g.parse(text, error_recovery=False)
            except Exception:
                tr['strict'] = True
        if opts.get('provenance') and not tr['raised']:
            try:
                # the same listing in a process that turns warnings into errors (python -W error, pytest configured
                # with filterwarnings = error): the list is a function of the tree, not of the warning filters
                import warnings
                with warnings.catch_warnings():
                    warnings.simplefilter('error')
                    tr['prov'].append(_issue_list(listing(m)))
            except Exception as e:  # noqa
                tr['prov'].append([{'code': -8, 'mp': record.exc_key(e), 'ml': 1, 's': [0, 0], 'e': [0, 0]}])
            try:
                m2 = pickle.loads(pickle.dumps(m))
                tr['prov'].append(_issue_list(listing(m2)))
                from parso.python.diff import DiffParser
                lines = record.parso.split_lines(text, keepends=True)
                olds = [text[:len(text) // 2]]
                if len(lines) > 2:
                    olds.append(''.join(lines[1:]))           # the edit inserts the first line
                    olds.append(''.join(lines[:-2]) + 'zz = 0\n')
                for old_text in olds:
                    old = g.parse(old_text)
                    try:
                        listing(old)                          # an earlier listing on the tree that is about to be reused
                    except Exception:  # noqa: a failure on the OLD text is that text's own trace, not this one's
                        pass
                    dp = DiffParser(g._pgen_grammar, g._tokenizer, old)
                    m3 = dp.update(record.parso.split_lines(old_text, keepends=True), lines)
                    tr['prov'].append(_issue_list(listing(m3)))
            except Exception as e:  # noqa
                tr['prov'].append([{'code': -7, 'mp': record.exc_key(e), 'ml': 1, 's': [0, 0], 'e': [0, 0]}])
        kept.append((tr, m, listing))
        out.append(tr)
    for tr, m, listing in reversed(kept):
        if tr['raised']:
            continue
        try:
            tr['calls'].append(_issue_list(listing(m)))
        except Exception as e:  # noqa
            tr['raised'] = True
            tr['exc'] = record.exc_key(e)
        tr['d1'] = intern(m.dump(indent=None))
        tr['nontrivial'] = bool(tr['calls'] and tr['calls'][0])
    return out
