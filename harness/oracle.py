"""Reference interpreters (CPython 3.6 - 3.13 under /root/.pyenv/versions) as oracles: tiny scripts run in
subprocesses (tokenize / compile / ast facts).  The scripts are Python 3.6 compatible."""
import json
import os
import re
import subprocess

BASE = '/root/.pyenv/versions'


def interpreters():
    out = {}
    if os.path.isdir(BASE):
        for v in sorted(os.listdir(BASE)):
            m = re.match(r'3\.(\d+)\.', v)
            if m:
                p = os.path.join(BASE, v, 'bin', 'python')
                if os.path.exists(p):
                    out['3.%s' % m.group(1)] = p
    return out


INTERPRETERS = interpreters()


def judge_version(v):
    """the interpreter that judges grammar version v (3.14 is judged by the newest available)"""
    if v in INTERPRETERS:
        return v
    avail = sorted(INTERPRETERS, key=lambda s: int(s.split('.')[1]))
    return avail[-1] if avail else None


TOKENIZE = r'''
import sys, json, io, tokenize
def run(src):
    out = []
    try:
        for t in tokenize.generate_tokens(io.StringIO(src).readline):
            out.append([tokenize.tok_name[t.type], t.string, t.start[0], t.start[1], t.end[0], t.end[1]])
    except Exception as e:
        return {'ok': False, 'err': type(e).__name__}
    return {'ok': True, 'toks': out}
for line in sys.stdin:
    src = json.loads(line)
    sys.stdout.write(json.dumps(run(src)) + '\n')
'''

COMPILE = r'''
import sys, json, warnings
warnings.simplefilter('ignore')
for line in sys.stdin:
    src = json.loads(line)
    try:
        compile(src, '<x>', 'exec', dont_inherit=True)
        r = {'ok': True}
    except (SyntaxError, ValueError, OverflowError, RecursionError, MemoryError) as e:
        r = {'ok': False, 'err': type(e).__name__ + ': ' + str(getattr(e, 'msg', e))[:80]}
    except Exception as e:
        r = {'ok': False, 'err': 'other:' + type(e).__name__}
    sys.stdout.write(json.dumps(r) + '\n')
'''


def run_script(version, script, inputs, timeout=600):
    """run `script` in interpreter `version`; inputs: list of JSON-able values, one result per input"""
    exe = INTERPRETERS[version]
    data = ''.join(json.dumps(x) + '\n' for x in inputs).encode('utf-8')
    p = subprocess.run([exe, '-c', script], input=data, stdout=subprocess.PIPE, stderr=subprocess.PIPE, timeout=timeout,
                       env={'PYTHONIOENCODING': 'utf-8', 'PYTHONHASHSEED': '0', 'PATH': '/usr/bin:/bin'})
    lines = p.stdout.decode('utf-8', 'replace').splitlines()
    if len(lines) != len(inputs):
        raise RuntimeError('oracle %s returned %d results for %d inputs: %s' % (version, len(lines), len(inputs),
                                                                                p.stderr.decode()[-500:]))
    return [json.loads(l) for l in lines]
