"""Recorders: run the real parso and log what it returned, as JSON-able values.

Recorders log values only - every comparison is made by TLC against the specs.
Indices are 1-based pre-order positions following `.children`; 0 = None, -1 = object outside
the tree, -2 = the call raised (the exception text is logged next to it).
"""
import pickle

from .common import cps, import_parso

parso = import_parso()
from parso.python.tokenize import tokenize  # noqa: E402
from parso.utils import parse_version_string  # noqa: E402

_LAYOUT = ('INDENT', 'DEDENT', 'ERROR_DEDENT')


def exc_key(e):
    """Cause key of an exception: type, innermost parso function, stripped source line."""
    import traceback
    tb = traceback.extract_tb(e.__traceback__)
    frames = [f for f in tb if '/parso/' in f.filename]
    f = frames[-1] if frames else (tb[-1] if tb else None)
    if f is None:
        return '%s' % type(e).__name__
    return '%s@%s:%s:%s' % (type(e).__name__, f.filename.split('/parso/')[-1], f.name,
                            (f.line or '').strip())


def token_trace(tid, text, version):
    toks = []
    raised = False
    exc = ''
    try:
        for t in tokenize(text, version_info=parse_version_string(version)):
            toks.append({'t': t.type.name if hasattr(t.type, 'name') else str(t.type),
                         's': cps(t.string), 'p': cps(t.prefix),
                         'l': t.start_pos[0], 'c': t.start_pos[1]})
            if len(toks) > 20 * len(text) + 50:
                raise RuntimeError('token stream does not end')
    except Exception as e:  # noqa
        raised = True
        exc = exc_key(e)
    return {'id': tid, 'inp': cps(text), 'toks': toks, 'raised': raised, 'exc': exc, 'ver': version}


def _pos(p):
    try:
        return [int(p[0]), int(p[1])]
    except Exception:
        return [-9, -9]


def walk(root):
    """pre-order list of nodes following .children"""
    out = []
    stack = [root]
    while stack:
        n = stack.pop()
        out.append(n)
        ch = getattr(n, 'children', None)
        if ch is not None:
            stack.extend(reversed(ch))
        if len(out) > 200000:
            raise RuntimeError('tree does not end')
    return out


def tree_table(root, nav=True, parts=True, code_budget=60000, anc_types=()):
    """Serialise a tree: every field is what the real API returned."""
    order = walk(root)
    idx = {}
    for i, n in enumerate(order):
        idx.setdefault(id(n), i + 1)
    excs = []

    def ref(f):
        try:
            r = f()
        except Exception as e:
            excs.append(exc_key(e))
            return -2
        if r is None:
            return 0
        return idx.get(id(r), -1)

    def posv(f):
        try:
            return _pos(f())
        except Exception as e:
            excs.append(exc_key(e))
            return [-2, -2]

    nodes = []
    spent = 0
    for i, n in enumerate(order):
        ch = getattr(n, 'children', None)
        leaf = ch is None
        rec = {
            'cls': type(n).__name__,
            'type': str(getattr(n, 'type', '?')),
            'tt': str(getattr(n, 'token_type', '')) if leaf else '',
            'leaf': leaf,
            'par': ref(lambda: n.parent),
            'kids': [],
            'sp': 0, 'ci': 0,
            's': posv(lambda: n.start_pos) if (leaf or ch) else [0, 0],
            'e': posv(lambda: n.end_pos) if (leaf or ch) else [0, 0],
        }
        if leaf:
            v, p = getattr(n, 'value', None), getattr(n, 'prefix', None)
            rec['strs'] = isinstance(v, str) and isinstance(p, str)
            rec['val'] = cps(v) if isinstance(v, str) else []
            rec['pre'] = cps(p) if isinstance(p, str) else []
            rec['kids'] = []
        else:
            rec['strs'] = True
            rec['val'] = []
            rec['pre'] = []
            # children in list order; position in `order` is found by walking, so compute below
            rec['kids'] = None
        nodes.append(rec)
    # child indices: pre-order positions (first kid = i+1, next = after the previous kid's subtree)
    size = [1] * len(order)
    for i in range(len(order) - 1, -1, -1):
        ch = getattr(order[i], 'children', None)
        if ch is not None:
            k = i + 1
            kids = []
            for _ in ch:
                kids.append(k + 1)
                k += size[k]
            nodes[i]['kids'] = kids
            for ci, kk in enumerate(kids):
                nodes[kk - 1]['sp'] = i + 1
                nodes[kk - 1]['ci'] = ci + 1
            size[i] = 1 + sum(size[j - 1] for j in kids)
    for i, n in enumerate(order):
        rec = nodes[i]
        leaf = rec['leaf']
        has = leaf or bool(rec['kids'])
        if nav and has:
            rec['ps'] = posv(n.get_start_pos_of_prefix)
            rec['fl'] = ref(n.get_first_leaf)
            rec['ll'] = ref(n.get_last_leaf)
            rec['nl'] = ref(n.get_next_leaf)
            rec['pl'] = ref(n.get_previous_leaf)
            rec['nsb'] = ref(n.get_next_sibling)
            rec['psb'] = ref(n.get_previous_sibling)
            rec['root'] = ref(n.get_root_node)
            anc = []
            for ts in anc_types:
                anc.append([list(ts), ref(lambda: n.search_ancestor(*ts))])
            rec['anc'] = anc
        else:
            rec['ps'] = [0, 0]
            rec['fl'] = rec['ll'] = rec['nl'] = rec['pl'] = rec['nsb'] = rec['psb'] = rec['root'] = 0
            rec['anc'] = []
        # code
        rec['hc'] = False
        rec['code'] = []
        if has and (spent < code_budget or i == 0):
            try:
                c = n.get_code()
                rec['code'] = cps(c)
                rec['hc'] = True
                spent += len(c)
            except Exception as e:
                excs.append(exc_key(e))
                rec['hc'] = True
                rec['code'] = [-2]
        # prefix parts
        rec['parts'] = []
        rec['hp'] = False
        if leaf and parts and hasattr(n, '_split_prefix'):
            rec['hp'] = True
            try:
                for part in n._split_prefix():
                    rec['parts'].append({
                        'ty': part.type, 'sp': cps(part.spacing), 'v': cps(part.value),
                        's': _pos(part.start_pos), 'e': _pos(part.end_pos)})
            except Exception as e:
                excs.append(exc_key(e))
                rec['parts'] = [{'ty': 'RAISED', 'sp': [], 'v': [], 's': [0, 0], 'e': [0, 0]}]
    return nodes, excs, order


def position_queries(root, text, limit, rng):
    """Every (line, col) of the text (BOM zero width) plus a margin outside; sampled above `limit`."""
    lines = parso.split_lines(text, keepends=False)
    cand = []
    for li, line in enumerate(lines):
        n = len(line)
        if li == 0 and line.startswith('﻿'):
            n -= 1
        for c in range(0, n + 1):
            cand.append((li + 1, c))
        cand.append((li + 1, n + 1))          # just beyond the end of the line
    cand += [(0, 0), (1, -1), (len(lines) + 1, 0), (len(lines) + 2, 3), (0, 5)]
    if len(cand) > limit:
        keep = cand[-5:]
        cand = rng.sample(cand[:-5], limit - 5) + keep
    order = None
    out = []
    idx = {id(n): i + 1 for i, n in enumerate(walk(root))}
    for pos in cand:
        for inc in (False, True):
            try:
                r = root.get_leaf_for_position(pos, include_prefixes=inc)
                got = 0 if r is None else idx.get(id(r), -1)
            except ValueError:
                got = -3
            except Exception:
                got = -2
            out.append({'l': pos[0], 'c': pos[1], 'inc': inc, 'got': got})
    return out


def parse(text, version, **kw):
    g = parso.load_grammar(version=version)
    return g, g.parse(text, **kw)
