"""Independent reader of pgen-style EBNF grammar text (shares no code with parso.pgen2).

    grammar: (NEWLINE | rule)*      rule: NAME ':' rhs NEWLINE
    rhs: items ('|' items)*         items: item+
    item: '[' rhs ']' | atom ['+' | '*']      atom: '(' rhs ')' | NAME | STRING

AST nodes (dicts, printed as TLA+ records):  sym(id, s) | alt(l, r) | seq(l, r) | opt(l) | star(l) | plus(l)
Symbol labels are canonical: 'N:rule' nonterminal, 'T:NAME' token type, 'S:text' reserved string."""
import ast
import re

_TOK = re.compile(r"""\s*(?:(\#[^\n]*)|([A-Za-z_][A-Za-z_0-9]*)|('(?:[^'\\]|\\.)*'|"(?:[^"\\]|\\.)*")|([:|\[\]()*+])|(\n))""")


def tokenize(text):
    toks = []
    depth = 0
    pos = 0
    text = text.replace('\r\n', '\n').replace('\r', '\n')
    while pos < len(text):
        m = re.compile(r'[ \t\f]*').match(text, pos)
        pos = m.end()
        if pos >= len(text):
            break
        c = text[pos]
        if c == '#':
            while pos < len(text) and text[pos] != '\n':
                pos += 1
            continue
        if c == '\n':
            if depth == 0 and toks and toks[-1][0] != 'NL':
                toks.append(('NL', '\n'))
            pos += 1
            continue
        if c == '\\' and text[pos:pos + 2] == '\\\n':
            pos += 2
            continue
        m = re.compile(r'[A-Za-z_][A-Za-z_0-9]*').match(text, pos)
        if m:
            toks.append(('NAME', m.group(0)))
            pos = m.end()
            continue
        m = re.compile(r"""'(?:[^'\\\n]|\\.)*'|"(?:[^"\\\n]|\\.)*\"""").match(text, pos)
        if m:
            toks.append(('STRING', m.group(0)))
            pos = m.end()
            continue
        if c in ':|[]()*+':
            if c in '[(':
                depth += 1
            elif c in '])':
                depth -= 1
            toks.append(('OP', c))
            pos += 1
            continue
        raise SyntaxError('unexpected character %r in grammar text' % c)
    if toks and toks[-1][0] != 'NL':
        toks.append(('NL', '\n'))
    return toks


class _P:
    def __init__(self, toks):
        self.t = toks
        self.i = 0
        self.nid = 0

    def peek(self):
        return self.t[self.i] if self.i < len(self.t) else ('END', '')

    def next(self):
        tok = self.peek()
        self.i += 1
        return tok

    def rules(self):
        out = []
        while self.peek()[0] != 'END':
            if self.peek()[0] == 'NL':
                self.next()
                continue
            k, name = self.next()
            assert k == 'NAME', (k, name)
            k, v = self.next()
            assert (k, v) == ('OP', ':'), (name, k, v)
            self.nid = 0
            rhs = self.rhs()
            k, v = self.next()
            assert k == 'NL', (name, k, v)
            out.append((name, rhs))
        return out

    def rhs(self):
        a = self.items()
        while self.peek() == ('OP', '|'):
            self.next()
            b = self.items()
            a = {'op': 'alt', 'l': a, 'r': b}
        return a

    def starts_item(self):
        k, v = self.peek()
        return k in ('NAME', 'STRING') or (k == 'OP' and v in '([')

    def items(self):
        a = self.item()
        while self.starts_item():
            b = self.item()
            a = {'op': 'seq', 'l': a, 'r': b}
        return a

    def item(self):
        if self.peek() == ('OP', '['):
            self.next()
            a = self.rhs()
            assert self.next() == ('OP', ']')
            return {'op': 'opt', 'l': a}
        a = self.atom()
        if self.peek() == ('OP', '+'):
            self.next()
            return {'op': 'plus', 'l': a}
        if self.peek() == ('OP', '*'):
            self.next()
            return {'op': 'star', 'l': a}
        return a

    def atom(self):
        k, v = self.next()
        if (k, v) == ('OP', '('):
            a = self.rhs()
            assert self.next() == ('OP', ')')
            return a
        assert k in ('NAME', 'STRING'), (k, v)
        self.nid += 1
        return {'op': 'sym', 'id': self.nid, 'raw': v, 'kind': k}


def read(text):
    """-> list of (rule name, AST) with canonical symbol labels"""
    rules = _P(tokenize(text)).rules()
    names = {n for n, _ in rules}

    def canon(e):
        if e['op'] == 'sym':
            raw = e['raw']
            kind = e.pop('kind')
            if kind == 'STRING':
                e['s'] = 'S:' + ast.literal_eval(raw)
            elif raw in names:
                e['s'] = 'N:' + raw
            else:
                e['s'] = 'T:' + raw
        else:
            canon(e['l'])
            if 'r' in e:
                canon(e['r'])
    for _, r in rules:
        canon(r)
    return rules


def canon_label(label, rule_names):
    """[kind, spelling in the grammar text, value] of a raw arc label of the real generator"""
    if label in rule_names:
        return ['N', label, label]
    if label[0].isalpha() or label[0] == '_':
        return ['T', label, label]
    return ['S', label, ast.literal_eval(label)]


def render(ast_, top=True):
    """AST -> grammar text (minimal parentheses)"""
    op = ast_['op']
    if op == 'sym':
        s = ast_['s']
        return repr(s[2:]) if s.startswith('S:') else s[2:]
    if op == 'alt':
        return render(ast_['l'], False) + ' | ' + render(ast_['r'], False) if top else \
            '(' + render(ast_['l'], False) + ' | ' + render(ast_['r'], False) + ')'
    if op == 'seq':
        def part(e):
            return '(' + render(e) + ')' if e['op'] == 'alt' else render(e, False)
        return part(ast_['l']) + ' ' + part(ast_['r'])
    if op == 'opt':
        return '[' + render(ast_['l']) + ']'
    inner = ast_['l']
    body = render(inner, False) if inner['op'] == 'sym' else '(' + render(inner) + ')'
    return body + ('*' if op == 'star' else '+')


def tla(v):
    """python value -> TLA+ expression text"""
    if isinstance(v, bool):
        return 'TRUE' if v else 'FALSE'
    if isinstance(v, int):
        return str(v)
    if isinstance(v, str):
        return '"' + v.replace('\\', '\\\\').replace('"', '\\"') + '"'
    if isinstance(v, (list, tuple)):
        return '<<' + ', '.join(tla(x) for x in v) + '>>'
    if isinstance(v, dict):
        return '[' + ', '.join('%s |-> %s' % (k, tla(x)) for k, x in v.items()) + ']'
    if isinstance(v, (set, frozenset)):
        return '{' + ', '.join(tla(x) for x in sorted(v)) + '}'
    raise TypeError(type(v))
