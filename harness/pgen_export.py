"""Export what the real parser generator produced (walking the live objects) plus the independently read
grammar text, as a TLA+ constants module for Pgen / ParserB."""
import os

from . import ebnf
from .common import REPO, import_parso

parso = import_parso()
from parso.pgen2 import generate_grammar  # noqa: E402
from parso.pgen2.generator import ReservedString  # noqa: E402
from parso.python.token import PythonTokenTypes  # noqa: E402


def grammar_text(version):
    p = os.path.join(REPO, 'parso', 'python', 'grammar%s.txt' % version.replace('.', ''))
    with open(p) as f:
        return f.read()


def real_generate(text):
    """-> ('ok', pgen grammar) | ('ambiguous'|'leftrec'|'crash:<type>', message)"""
    try:
        g = generate_grammar(text, token_namespace=PythonTokenTypes)
    except ValueError as e:
        msg = str(e)
        if 'ambiguous' in msg:
            return 'ambiguous', msg
        if 'left recursion' in msg:
            return 'leftrec', msg
        return 'crash:ValueError', msg
    except Exception as e:  # noqa
        return 'crash:' + type(e).__name__, str(e)
    return 'ok', g


def tlabel(t):
    if isinstance(t, ReservedString):
        return 'S:' + t.value
    return 'T:' + getattr(t, 'name', str(t))


def tables(pg):
    """live pgen Grammar -> {'order': [rule names], 'dfa': {rule: [state dicts]}} (identity-based indices)"""
    names = list(pg.nonterminal_to_dfas.keys())
    ridx = {n: i + 1 for i, n in enumerate(names)}
    sid = {}
    for n, dfas in pg.nonterminal_to_dfas.items():
        for i, s in enumerate(dfas):
            sid[id(s)] = (ridx[n], i + 1)
    out = {}
    for n, dfas in pg.nonterminal_to_dfas.items():
        states = []
        for s in dfas:
            arcs = [[ebnf.canon_label(lab, ridx), sid[id(nx)][1] if sid[id(nx)][0] == ridx[n] else -1]
                    for lab, nx in s.arcs.items()]
            plans = []
            for t, plan in s.transitions.items():
                nr, ni = sid.get(id(plan.next_dfa), (-1, -1))
                pushes = [list(sid.get(id(p), (-1, -1))) for p in plan.dfa_pushes]
                plans.append([tlabel(t), ni if nr == ridx[n] else -1, pushes])
            states.append({'final': bool(s.is_final), 'arcs': arcs, 'plans': plans})
        out[n] = states
    return {'order': names, 'dfa': out, 'start': pg.start_nonterminal}


def grammar_record(text):
    """-> dict for the TLA+ module: verdict of the real generator, rules with rhs AST (independent reader) and,
    when the generator succeeded, its tables."""
    verdict, g = real_generate(text)
    rules = ebnf.read(text)
    rec = {'verdict': verdict, 'rules': []}
    tb = tables(g) if verdict == 'ok' else None
    if tb is not None:
        assert tb['order'] == [n for n, _ in rules], 'rule order differs between reader and generator'
    for name, rhs in rules:
        dfa = []
        for st in (tb['dfa'][name] if tb else []):
            dfa.append({'final': st['final'],
                        'arcs': [[a[0], a[1]] for a in st['arcs']],
                        'plans': [[lab2(p[0]), p[1], p[2]] for p in st['plans']]})
        r = {'name': name, 'lab': ['N', name, name], 'rhs': ast2(rhs), 'dfa': dfa}
        rec['rules'].append(r)
    return rec, tb


def lab2(l):
    """'S:if' -> ['S', 'if'] (TLC strings cannot be indexed, so labels are <<kind, text>> tuples)"""
    return [l[0], l[2:]]


def ast2(e):
    if e['op'] == 'sym':
        return {'op': 'sym', 'id': e['id'], 's': [e['s'][0], e['raw'], e['s'][2:]]}
    d = {'op': e['op'], 'l': ast2(e['l'])}
    if 'r' in e:
        d['r'] = ast2(e['r'])
    return d


def to_json(records):
    import json
    return json.dumps(records, separators=(',', ':'))
