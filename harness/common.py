"""Shared plumbing: paths, seed/tier, scratch directories, parso import from /repo."""
import hashlib
import os
import shutil
import sys
import tempfile
import time

VERIF = os.path.dirname(os.path.dirname(os.path.abspath(__file__)))
REPO = os.environ.get('PARSO_REPO', '/repo')
SPECS = os.path.join(VERIF, 'specs')
BUILD = os.path.join(VERIF, 'build')
EVIDENCE = os.path.join(VERIF, 'evidence')
REPLAY = os.path.join(EVIDENCE, 'replay')
# measured: the sandbox's 16 vCPUs give ~3.5x real parallelism (8 JVMs run 2.2x slower each), so 6 jobs
NCPU = int(os.environ.get('VERIF_JOBS', '0')) or min(6, os.cpu_count() or 4)

VERSIONS = ['3.6', '3.7', '3.8', '3.9', '3.10', '3.11', '3.12', '3.13', '3.14']


def seed():
    try:
        return int(os.environ.get('VERIF_SEED', '0'))
    except ValueError:
        return 0


def import_parso():
    """Import parso from the current working tree of /repo (never a copy)."""
    if sys.path[0] != REPO:
        sys.path.insert(0, REPO)
    import parso
    assert os.path.abspath(parso.__file__).startswith(os.path.abspath(REPO)), parso.__file__
    return parso


def repo_hash():
    h = hashlib.sha1()
    root = os.path.join(REPO, 'parso')
    for d, _, files in sorted(os.walk(root)):
        for f in sorted(files):
            if f.endswith(('.py', '.txt')):
                p = os.path.join(d, f)
                h.update(p.encode())
                with open(p, 'rb') as fh:
                    h.update(fh.read())
    return h.hexdigest()[:12]


class Scratch:
    """Per-run scratch directory under /verif/build (removed on success)."""

    def __init__(self, name):
        os.makedirs(BUILD, exist_ok=True)
        self.path = tempfile.mkdtemp(prefix='%s-%d-' % (name, os.getpid()), dir=BUILD)

    def sub(self, name):
        p = os.path.join(self.path, name)
        os.makedirs(p, exist_ok=True)
        return p

    def cleanup(self):
        shutil.rmtree(self.path, ignore_errors=True)


class Timer:
    def __init__(self):
        self.t0 = time.time()

    def s(self):
        return round(time.time() - self.t0, 2)


def cps(s):
    """text -> list of code points (TLC has no strings with arbitrary characters)."""
    return [ord(c) for c in s]


def uncps(a):
    return ''.join(chr(c) for c in a)


def chunks(seq, n):
    """Split seq into n nearly equal contiguous parts (no empty parts)."""
    seq = list(seq)
    n = max(1, min(n, len(seq)))
    k, m = divmod(len(seq), n)
    out = []
    i = 0
    for j in range(n):
        size = k + (1 if j < m else 0)
        out.append(seq[i:i + size])
        i += size
    return [c for c in out if c]
