"""C17 fault scenarios run against the real cache: every scenario yields an event trace for CacheTrace.

scenario = save a valid entry, apply one fault (torn / corrupt file, injected OSError at one file operation,
leftover temp file, missing directory), then parse again from a fresh process (memory dropped): the call must
return the tree of the current content; a further fresh process must then be served from the repaired pickle."""
import errno
import glob
import os
import pickle
import shutil
import time
import types
import warnings
from pathlib import Path

from . import record
from .common import import_parso
from .fsim import CONTENT_TEXT, ev

parso = import_parso()
import parso.cache as pcache  # noqa: E402


class Lab:
    def __init__(self, root, version='3.9', content='b'):
        self.root = root
        shutil.rmtree(root, ignore_errors=True)
        os.makedirs(root)
        self.g = parso.load_grammar(version=version)
        self.src = os.path.join(root, 'p1.py')
        self.cdir = Path(os.path.join(root, 'cache'))
        self.content = content
        with open(self.src, 'w', newline='') as f:
            f.write(CONTENT_TEXT[content])
        old = time.time() - 3600
        os.utime(self.src, (old, old))
        pcache.parser_cache.clear()
        self.src_kind = None
        self._orig_load = pcache._load_from_file_system

        def traced(*a, **kw):
            r = self._orig_load(*a, **kw)
            if r is not None:
                self.src_kind = 'disk'
            return r
        pcache._load_from_file_system = traced

    def close(self):
        pcache._load_from_file_system = self._orig_load
        pcache.parser_cache.clear()
        shutil.rmtree(self.root, ignore_errors=True)

    def pickle_file(self):
        fs = glob.glob(os.path.join(str(self.cdir), '*', '*.pkl'))
        return fs[0] if fs else None

    def call(self, must='', keep_memory=False, diff_cache=False):
        """one parse(path, cache=True) in a fresh process (or the same one); returns the Start/Return events"""
        if not keep_memory:
            pcache.parser_cache.clear()
        self.src_kind = None
        out = [ev('Start', 'g1', 'p1', 'd1')]
        try:
            with warnings.catch_warnings():
                warnings.simplefilter('ignore')
                m = self.g.parse(path=self.src, cache=True, cache_path=self.cdir, diff_cache=diff_cache)
            code = m.get_code()
            cid = next((c for c, t in CONTENT_TEXT.items() if t == code), '?')
            if self.g.parse(code).dump(indent=None) != m.dump(indent=None):
                cid = 'WRONGTREE'
            out.append(ev('Return', 'g1', 'p1', 'd1', cid, src=self.src_kind or 'parse', must=must))
        except BaseException as e:  # noqa
            out.append(ev('Return', 'g1', 'p1', 'd1', 'RAISED:' + record.exc_key(e), src='', must=must))
        return out


def corruptions(data, other):
    """name -> bytes: what a crash, a full disk or a concurrent writer can leave"""
    out = {'empty': b'', 'garbage': b'\x00\xff garbage \x93' * 7, 'zero-tail': data[:len(data) // 2] + b'\0' * (len(data) // 2),
           'partial-overwrite': other[:len(other) // 3] + data[len(other) // 3:],
           'other-object': pickle.dumps({'not': 'a cache item'}), 'text': b'hello world\n',
           'pickle-of-int': pickle.dumps(7)}
    return out


def file_fault_scenarios(root, tier, rng):
    """torn and corrupt pickle files: every (quick: every 16th) truncation offset of real pickles + corruption set"""
    traces = []
    tid = 0
    for content, version in (('b', '3.9'), ('c', '3.12'), ('a', '3.6')) if tier == 'thorough' else (('b', '3.9'),
                                                                                                  ('c', '3.13')):
        lab = Lab(root, version, content)
        try:
            lab.call()
            pf = lab.pickle_file()
            data = open(pf, 'rb').read()
            other = pickle.dumps(pcache._NodeCacheItem(lab.g.parse('zzz = 3\n'), ['zzz = 3\n'], time.time()))
            step = 1 if tier == 'thorough' else 16
            offs = list(range(0, len(data), step))
            if tier != 'thorough':
                offs += rng.sample(range(len(data)), 12) + [len(data) - 1, 1, 2]
            cases = [('truncate@%d' % k, data[:k]) for k in sorted(set(offs))]
            cases += list(corruptions(data, other).items())
            for name, blob in cases:
                with open(pf, 'wb') as f:
                    f.write(blob)
                tid += 1
                evs = lab.call() + lab.call(must='disk')
                traces.append({'id': tid, 'init': content, 'events': evs, 'kind': 'file-fault', 'hist': [name, version]})
            # leftover temp file and missing directory
            for name in ('leftover-temp', 'missing-version-dir', 'missing-cache-dir', 'version-dir-is-a-file',
                         'cache-dir-is-a-file'):
                if name == 'leftover-temp':
                    with open(pf + '.tmp', 'wb') as f:
                        f.write(data[:10])
                    with open(os.path.join(os.path.dirname(pf), 'stray'), 'wb') as f:
                        f.write(b'x')
                elif name == 'missing-version-dir':
                    shutil.rmtree(os.path.dirname(pf))
                elif name in ('version-dir-is-a-file', 'cache-dir-is-a-file'):
                    # nothing can be created below a regular file: every file operation of the save fails, whichever
                    # way the save creates its file; the parse must still succeed, and once the obstacle is gone the
                    # next save must work again
                    obstacle = os.path.dirname(pf) if name == 'version-dir-is-a-file' else str(lab.cdir)
                    shutil.rmtree(obstacle, ignore_errors=True)
                    open(obstacle, 'wb').close()
                    tid += 1
                    evs = lab.call()
                    os.remove(obstacle)
                    evs += lab.call() + lab.call(must='disk')
                    traces.append({'id': tid, 'init': content, 'events': evs, 'kind': 'file-fault', 'hist': [name, version]})
                    lab.call()
                    pf = lab.pickle_file()
                    continue
                else:
                    shutil.rmtree(str(lab.cdir))
                tid += 1
                evs = lab.call() + lab.call(must='disk')
                traces.append({'id': tid, 'init': content, 'events': evs, 'kind': 'file-fault', 'hist': [name, version]})
        finally:
            lab.close()
    return traces


OPS = ['os.makedirs', 'os.path.getmtime:pkl', 'open:rb', 'pickle.load', 'open:wb', 'pickle.dump',
       'os.path.getmtime:lock', 'os.utime', 'open:a', 'os.listdir', 'os.scandir', 'os.remove']


def inject(op, exc, nth=1):
    """patch parso.cache so that the nth use of `op` raises exc; returns an undo function"""
    real_os, real_pickle = os, pickle
    count = [0]

    def hit():
        count[0] += 1
        return count[0] == nth

    class PathShim:
        def __getattr__(self, name):
            return getattr(real_os.path, name)

        def getmtime(self, p):
            kind = 'lock' if str(p).endswith('PARSO-CACHE-LOCK') else 'pkl'
            if op == 'os.path.getmtime:' + kind and hit():
                raise exc
            return real_os.path.getmtime(p)

    class OsShim:
        path = PathShim()

        def __getattr__(self, name):
            f = getattr(real_os, name)
            if op == 'os.' + name and callable(f):
                def g(*a, **kw):
                    if hit():
                        raise exc
                    return f(*a, **kw)
                return g
            return f

    class PickleShim:
        def __getattr__(self, name):
            f = getattr(real_pickle, name)
            if op == 'pickle.' + name:
                def g(*a, **kw):
                    if hit():
                        if name == 'dump':
                            a[1].write(b'\x80\x05\x95partial')      # the failure leaves a torn file behind
                        raise exc
                    return f(*a, **kw)
                return g
            return f

    def hooked_open(file, mode='r', *a, **kw):
        m = 'rb' if 'r' in mode else ('wb' if 'w' in mode else 'a')
        if op == 'open:' + m and hit():
            raise exc
        return open(file, mode, *a, **kw)

    saved = (pcache.os, pcache.pickle, getattr(pcache, 'open', None))
    pcache.os, pcache.pickle, pcache.open = OsShim(), PickleShim(), hooked_open

    def undo():
        pcache.os, pcache.pickle = saved[0], saved[1]
        if saved[2] is None:
            del pcache.open
        else:
            pcache.open = saved[2]
    return undo, count


def oserror_scenarios(root, tier):
    traces = []
    tid = 10000
    excs = [('ENOSPC', lambda: OSError(errno.ENOSPC, 'No space left on device')),
            ('EACCES', lambda: PermissionError(errno.EACCES, 'Permission denied')),
            ('EIO', lambda: OSError(errno.EIO, 'Input/output error'))]
    for op in OPS:
        for ename, mk in excs:
            for phase in ('first-parse', 'reload', 'cleanup-due'):
                lab = Lab(root)
                try:
                    evs = []
                    if phase != 'first-parse':
                        lab.call()
                    if phase == 'cleanup-due':
                        lock = os.path.join(str(lab.cdir), 'PARSO-CACHE-LOCK')
                        old = time.time() - 3 * 24 * 3600
                        if os.path.exists(lock):
                            os.utime(lock, (old, old))
                        # force a re-save so that the clean-up path runs
                        now = time.time()
                        os.utime(lab.src, (now, now))
                    undo, count = inject(op, mk())
                    try:
                        evs += lab.call()
                    finally:
                        undo()
                    if count[0] == 0:
                        continue            # the operation is not on this path: nothing was injected
                    evs += lab.call()       # and afterwards everything still works
                    tid += 1
                    traces.append({'id': tid, 'init': lab.content, 'events': evs, 'kind': 'oserror',
                                   'hist': [op, ename, phase]})
                finally:
                    lab.close()
    return traces


def cleanup_scenarios(root):
    """clear_inactive_cache must only remove entries not accessed for 30 days"""
    traces = []
    lab = Lab(root)
    try:
        lab.call()
        pf = lab.pickle_file()
        vdir = os.path.dirname(pf)
        ages = [0, 1, 29, 31, 45, 400]
        files = []
        now = time.time()
        # "in use" is decided by the last ACCESS: every access age is combined with a fresh and with a very old
        # modification time (an entry written long ago and loaded yesterday is in use)
        for i, (age, mage) in enumerate([(a, m) for a in ages for m in (0, 400)]):
            f = os.path.join(vdir, 'entry%d.pkl' % i)
            shutil.copy(pf, f)
            t = now - age * 24 * 3600 - 60
            os.utime(f, (t, now - mage * 24 * 3600))
            files.append((f, age))
        # an entry another process is saving right now: created, nothing flushed yet (empty), accessed just now
        f = os.path.join(vdir, 'being-written.pkl')
        open(f, 'wb').close()
        os.utime(f, (now, now))
        files.append((f, 0))
        os.utime(pf, (now, now))
        lock = os.path.join(str(lab.cdir), 'PARSO-CACHE-LOCK')
        old = now - 2 * 24 * 3600
        if not os.path.exists(lock):
            open(lock, 'a').close()
        os.utime(lock, (old, old))
        os.utime(lab.src, (now, now))      # changed file -> re-parse -> save -> clean-up is due
        evs = lab.call()
        evs.append(ev('Cleanup', files=[{'age': age, 'gone': not os.path.exists(f)} for f, age in files] +
                      [{'age': 0, 'gone': not os.path.exists(pf)}]))
        evs += lab.call(must='disk')
        traces.append({'id': 20001, 'init': lab.content, 'events': evs, 'kind': 'cleanup', 'hist': ['cleanup', ages, 'x mtime age (0, 400)']})
        # a second save on the same day must not clean again (lock file): nothing may disappear
        for f, age in files:
            if not os.path.exists(f):
                shutil.copy(pf, f)
                t = now - 99 * 24 * 3600
                os.utime(f, (t, now))
        os.utime(lab.src, (now + 5, now + 5))
        evs = lab.call()
        evs.append(ev('Cleanup', files=[{'age': 0 if os.path.exists(f) else 0, 'gone': not os.path.exists(f)}
                                        for f, age in files]))
        traces.append({'id': 20002, 'init': lab.content, 'events': evs, 'kind': 'cleanup', 'hist': ['lock-holds']})
    finally:
        lab.close()
    return traces


def realfs_scenarios(root):
    """C16 with the REAL file layer (parso.file_io.FileIO, os.stat): the way the file is named - plain path, symbolic
    link, link to a link, hard link, relative path - must not matter: after the file behind the name is rewritten
    (newer mtime), the next parse returns the new content, from memory, from a fresh process and with diff_cache."""
    traces = []
    tid = 0
    for kind in ('plain', 'symlink', 'symlink2', 'hardlink', 'relative'):
        for mode in ('memory', 'fresh', 'diff'):
            lab = Lab(root)
            cwd = os.getcwd()
            try:
                target = lab.src
                if kind == 'symlink':
                    lab.src = os.path.join(root, 'link.py')
                    os.symlink(target, lab.src)
                elif kind == 'symlink2':
                    mid = os.path.join(root, 'mid.py')
                    os.symlink(target, mid)
                    lab.src = os.path.join(root, 'link2.py')
                    os.symlink(mid, lab.src)
                elif kind == 'hardlink':
                    lab.src = os.path.join(root, 'hard.py')
                    os.link(target, lab.src)
                elif kind == 'relative':
                    os.chdir(root)
                    lab.src = 'p1.py'
                evs = lab.call(keep_memory=True, diff_cache=(mode == 'diff'))
                base = time.time() - 3000
                for i, content in enumerate(('c', 'a', 'b', 'c')):
                    with open(target, 'w', newline='') as f:       # in place: the inode (and every link to it) stays
                        f.write(CONTENT_TEXT[content])
                    os.utime(target, (base + 60 * (i + 1), base + 60 * (i + 1)))
                    evs.append(ev('Write', p='p1', c=content))
                    evs += lab.call(keep_memory=(mode != 'fresh'), diff_cache=(mode == 'diff'))
                tid += 1
                traces.append({'id': 40000 + tid, 'init': lab.content, 'events': evs, 'kind': 'realfs',
                               'hist': ['realfs', kind, mode]})
            finally:
                os.chdir(cwd)
                lab.close()
    return traces


def sibling_path_scenarios(root):
    """C16 NoForeign on the real file layer: two DIFFERENT files whose names are equal up to Unicode normalisation
    or letter case (legal, distinct names on the file systems parso runs on) must never be served each other's tree -
    in memory, from the pickle after a restart, in both orders."""
    import unicodedata
    traces = []
    tid = 0
    pairs = [('caf\u00e9.py', 'cafe\u0301.py'), ('Mod.py', 'mod.py'), ('\u212b.py', '\u00c5.py'), ('a.py', 'a.py ')]
    for n1, n2 in pairs:
        for order in ((0, 1), (1, 0)):
            lab = Lab(root)
            try:
                files = {'p1': os.path.join(root, n1), 'p2': os.path.join(root, n2)}
                content = {'p1': 'b', 'p2': 'c'}
                evs = []
                now = time.time() - 3000
                for k, (pk, path) in enumerate(sorted(files.items())):
                    with open(path, 'w', newline='') as f:
                        f.write(CONTENT_TEXT[content[pk]])
                    # the file parsed first is the NEWER one: the other's mtime does not invalidate a shared entry
                    newer = (order[0] == k)
                    t = now + (600 if newer else 0)
                    os.utime(path, (t, t))
                    evs.append(ev('Write', p=pk, c=content[pk]))
                if len({os.path.realpath(p) for p in files.values()}) < 2 or len(os.listdir(root)) < 3:
                    continue            # the file system folded the two names into one file: no claim
                seq = [sorted(files)[order[0]], sorted(files)[order[1]]]
                for fresh in (False, True, True):
                    for pk in seq:
                        lab.src = files[pk]
                        r = lab.call(keep_memory=not fresh)
                        for e in r:
                            e['p'] = pk
                        evs += r
                tid += 1
                traces.append({'id': 41000 + tid, 'init': 'a', 'events': evs, 'kind': 'realfs',
                               'hist': ['sibling-paths', unicodedata.normalize('NFC', n1).encode('unicode_escape').decode(),
                                        n2.encode('unicode_escape').decode(), list(order)]})
            finally:
                lab.close()
    return traces
