"""Verdict bookkeeping: violations, known findings, evidence files, exit codes."""
import json
import os
import re

from .common import EVIDENCE, REPLAY, VERIF, seed

_LEVELS = ('exploration', 'fault_enumeration', 'model_checking', 'proof', 'translation_validation', 'other')


def load_known():
    p = os.path.join(VERIF, 'known_findings.json')
    with open(p) as f:
        data = json.load(f)
    return [e for e in data.get('findings', [])]


class Outcome:
    """Collects what one check run observed. Nothing here judges: checks add violations that the
    TLA+ specs (or, for reference-relational properties, the stated relation) rejected."""

    def __init__(self, prop, tier, level):
        assert level in _LEVELS
        self.prop = prop
        self.tier = tier
        self.level = level
        self.violations = []      # dicts: key, clause, detail, replay
        self.coverage = {}
        self.assumptions = []
        self.notes = []
        self.drift = []

    def violation(self, key, clause, detail, replay):
        """key: cause key used for known-finding matching; replay: JSON-able dict that reproduces it."""
        self.violations.append({'key': key, 'clause': clause, 'detail': detail, 'replay': replay})

    def cov(self, **kw):
        self.coverage.update(kw)

    def add(self, name, n):
        self.coverage[name] = self.coverage.get(name, 0) + n

    def sample(self, s, limit=6):
        lst = self.coverage.setdefault('samples', [])
        if len(lst) < limit:
            lst.append(s)


def finish(out, wall_s):
    """Print verdict lines, write evidence, return exit code."""
    known = [k for k in load_known() if k.get('property') == out.prop and k.get('status', 'open') == 'open']
    new = []
    hit = {}
    for v in out.violations:
        matched = None
        for k in known:
            if 'key' in k and k['key'] == v['key']:
                matched = k
            elif 'key_regex' in k and re.fullmatch(k['key_regex'], v['key']):
                matched = k
            if matched:
                break
        if matched:
            hit.setdefault(matched['id'], [matched, 0, v])
            hit[matched['id']][1] += 1
        else:
            new.append(v)
    for fid, (k, n, v) in sorted(hit.items()):
        print('KNOWN-FINDING: property=%s %s [%s; %d observation(s) this run, e.g. %s]' % (
            out.prop, k['what'], fid, n, json.dumps(v['detail'])[:200]))
    rc = 0
    if new:
        os.makedirs(REPLAY, exist_ok=True)
        seen = set()
        n = 0
        for v in new:
            if v['key'] in seen:
                continue
            seen.add(v['key'])
            n += 1
            if n > 10:
                break
            path = os.path.join(REPLAY, '%s-%d.json' % (out.prop, n))
            with open(path, 'w') as f:
                json.dump({'property': out.prop, 'clause': v['clause'], 'key': v['key'],
                           'detail': v['detail'], 'replay': v['replay']}, f, indent=1)
            print('VIOLATION property=%s replay=%s' % (out.prop, path))
            print('  clause=%s key=%s detail=%s' % (v['clause'], v['key'], json.dumps(v['detail'])[:400]))
        rc = 1
    for d in out.drift[:10]:
        print('MODEL-DRIFT: %s' % d)
    cov = dict(out.coverage)
    cov.setdefault('samples', [])
    if out.drift:
        cov['model_drift'] = out.drift[:20]
    if out.notes:
        cov['notes'] = out.notes
    cov['known_findings_observed'] = {fid: n for fid, (k, n, v) in hit.items()}
    ev = {
        'property_id': out.prop,
        'tier': out.tier,
        'seed': seed(),
        'level': out.level,
        'coverage': cov,
        'assumptions': out.assumptions,
        'wall_s': wall_s,
        'violations': len(new),
    }
    os.makedirs(EVIDENCE, exist_ok=True)
    with open(os.path.join(EVIDENCE, out.prop + '.json'), 'w') as f:
        json.dump(ev, f, indent=1, default=str)
    print('%s %s: %s in %.1fs (%s)' % (
        out.prop, out.tier, 'OK' if rc == 0 else 'VIOLATED', wall_s,
        ', '.join('%s=%s' % (k, v) for k, v in cov.items()
                  if isinstance(v, (int, bool)))))
    return rc
