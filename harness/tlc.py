"""Run TLC on specs from /verif/specs inside a scratch directory and parse what it printed."""
import concurrent.futures
import os
import re
import shutil
import subprocess

from .common import SPECS, NCPU

JAR = '/opt/veriftools/tla/tla2tools.jar'
DEPS = '/opt/veriftools/tla/CommunityModules-deps.jar'


class TLCError(Exception):
    """Machinery failure (SANY error, TLC crashed, timeout) - never a property verdict."""


class TLCResult:
    def __init__(self, out, rc):
        self.out = out
        self.rc = rc
        m = re.findall(r'(\d+) states generated, (\d+) distinct states found', out)
        self.generated = int(m[-1][0]) if m else 0
        self.distinct = int(m[-1][1]) if m else 0
        m = re.search(r'The depth of the complete state graph search is (\d+)', out)
        self.depth = int(m.group(1)) if m else 0
        self.violated = re.findall(r'Invariant (\S+) is violated', out)
        self.violated += re.findall(r'Action property (\S+) is violated', out)
        if 'Temporal properties were violated' in out:
            self.violated.append('temporal')
        if re.search(r'Deadlock reached', out):
            self.violated.append('deadlock')
        self.post_failed = 'The postcondition' in out and 'was violated' in out \
            or 'Evaluating the post' in out and 'FALSE' in out
        self.finished = 'Model checking completed' in out or 'Finished in' in out \
            or 'Finished computing' in out
        self.error = None
        m = re.search(r'^Error: (.*(?:\n(?!\S).*)*)', out, re.M)
        if m and not self.violated:
            self.error = m.group(1)[:2000]

    def printed(self, tag):
        """All tuples printed with PrintT(<<tag, ...>>), parsed into python lists (robust to interleaving)."""
        res = []
        pat = re.compile(r'<<\s*"%s"' % re.escape(tag))
        i = 0
        out = self.out
        while True:
            m = pat.search(out, i)
            if not m:
                break
            i = m.start()
            depth = 0
            j = i
            instr = False
            while j < len(out):
                c = out[j]
                if instr:
                    if c == '\\':
                        j += 1
                    elif c == '"':
                        instr = False
                elif c == '"':
                    instr = True
                elif out.startswith('<<', j):
                    depth += 1
                    j += 1
                elif out.startswith('>>', j):
                    depth -= 1
                    j += 1
                    if depth == 0:
                        break
                j += 1
            res.append(parse_value(out[i:j + 1]))
            i = j + 1
        return res

    def coverage(self):
        """action name -> (distinct, total) from -coverage output lines `<Action line ...>: d:t`."""
        cov = {}
        for m in re.finditer(r'^<(\w+) line [^>]*>: (\d+):(\d+)', self.out, re.M):
            d, t = int(m.group(2)), int(m.group(3))
            a = cov.get(m.group(1), (0, 0))
            cov[m.group(1)] = (a[0] + d, a[1] + t)
        return cov


def parse_value(s):
    """Parse a printed TLA+ value made of tuples, sets, records, strings, ints, booleans."""
    pos = [0]

    def ws():
        while pos[0] < len(s) and s[pos[0]] in ' \n\r\t':
            pos[0] += 1

    def val():
        ws()
        if s.startswith('<<', pos[0]):
            pos[0] += 2
            items = []
            ws()
            while not s.startswith('>>', pos[0]):
                items.append(val())
                ws()
                if s[pos[0]] == ',':
                    pos[0] += 1
                ws()
            pos[0] += 2
            return items
        if s[pos[0]] == '{':
            pos[0] += 1
            items = []
            ws()
            while s[pos[0]] != '}':
                items.append(val())
                ws()
                if s[pos[0]] == ',':
                    pos[0] += 1
                ws()
            pos[0] += 1
            return {'__set__': items}
        if s[pos[0]] == '[':
            pos[0] += 1
            rec = {}
            ws()
            while s[pos[0]] != ']':
                m = re.compile(r'\w+').match(s, pos[0])
                key = m.group(0)
                pos[0] = m.end()
                ws()
                assert s.startswith('|->', pos[0]), s[pos[0]:pos[0] + 20]
                pos[0] += 3
                rec[key] = val()
                ws()
                if s[pos[0]] == ',':
                    pos[0] += 1
                ws()
            pos[0] += 1
            return rec
        if s[pos[0]] == '"':
            j = pos[0] + 1
            buf = []
            while s[j] != '"':
                if s[j] == '\\':
                    j += 1
                    buf.append({'n': '\n', 't': '\t', 'r': '\r', 'f': '\f'}.get(s[j], s[j]))
                else:
                    buf.append(s[j])
                j += 1
            pos[0] = j + 1
            return ''.join(buf)
        m = re.compile(r'-?\d+').match(s, pos[0])
        if m:
            pos[0] = m.end()
            return int(m.group(0))
        m = re.compile(r'\w+').match(s, pos[0])
        if m:
            pos[0] = m.end()
            w = m.group(0)
            return {'TRUE': True, 'FALSE': False}.get(w, w)
        raise ValueError('cannot parse TLA value at %r' % s[pos[0]:pos[0] + 30])

    return val()


def prepare(run_dir, modules, extra_files=None):
    """Copy spec modules (names without .tla) and extra files into run_dir."""
    os.makedirs(run_dir, exist_ok=True)
    for m in modules:
        src = os.path.join(SPECS, m + '.tla')
        shutil.copy(src, os.path.join(run_dir, m + '.tla'))
    for name, content in (extra_files or {}).items():
        mode = 'wb' if isinstance(content, bytes) else 'w'
        with open(os.path.join(run_dir, name), mode) as f:
            f.write(content)


def run(run_dir, module, cfg_text, workers=1, timeout=600, simulate=None, depth=None,
        seed=None, dump=None, coverage=False, deadlock_check=False, env=None, xss='512m',
        heap=None, dfs=False, extra_args=()):
    """Run TLC; returns TLCResult. Raises TLCError on machinery failure."""
    cfg = os.path.join(run_dir, module + '.cfg')
    with open(cfg, 'w') as f:
        f.write(cfg_text)
    meta = os.path.join(run_dir, 'meta-%s' % module)
    shutil.rmtree(meta, ignore_errors=True)
    cmd = ['java', '-XX:+UseParallelGC', '-XX:ParallelGCThreads=%d' % max(2, min(8, workers)), '-Xss' + xss,
           '-Xmx' + (heap or ('3g' if workers == 1 else '12g'))]
    if workers == 1 and not simulate:
        cmd.append('-XX:TieredStopAtLevel=1')   # short single-worker runs: C1 only, 3x less CPU
    if dfs:
        cmd.append('-Dtlc2.tool.queue.IStateQueue=StateDeque')
    cmd += ['-cp', JAR + ':' + DEPS, 'tlc2.TLC', '-workers', str(workers), '-metadir', meta,
            '-noGenerateSpecTE', '-config', module + '.cfg']
    if not deadlock_check:
        cmd.append('-deadlock')
    if simulate:
        cmd += ['-simulate', simulate]
    if depth:
        cmd += ['-depth', str(depth)]
    if seed is not None:
        cmd += ['-seed', str(seed)]
    if dump:
        cmd += ['-dump', dump]
    if coverage:
        cmd += ['-coverage', '1']
    cmd += list(extra_args)
    cmd.append(module)
    e = dict(os.environ)
    e.pop('JAVA_TOOL_OPTIONS', None)
    if env:
        e.update(env)
    try:
        p = subprocess.run(cmd, cwd=run_dir, env=e, stdout=subprocess.PIPE, stderr=subprocess.STDOUT,
                           timeout=timeout)
    except subprocess.TimeoutExpired as ex:
        out = (ex.stdout or b'').decode('utf-8', 'replace')
        if simulate:
            return TLCResult(out, 124)
        raise TLCError('TLC timeout after %ss on %s\n%s' % (timeout, module, out[-2000:]))
    out = p.stdout.decode('utf-8', 'replace')
    shutil.rmtree(meta, ignore_errors=True)
    res = TLCResult(out, p.returncode)
    if 'Parsing or semantic analysis failed' in out or 'Fatal errors while parsing' in out \
            or '***Parse Error***' in out:
        raise TLCError('SANY error in %s:\n%s' % (module, out[-3000:]))
    if res.error and not res.violated:
        # evaluation errors etc. are machinery failures unless they are assertion-style verdicts
        raise TLCError('TLC error in %s: %s\n%s' % (module, res.error, out[-3000:]))
    return res


def run_many(jobs, max_parallel=NCPU):
    """jobs: list of kwargs dicts for run(); executed in parallel; returns results in order."""
    with concurrent.futures.ThreadPoolExecutor(max_workers=max_parallel) as ex:
        futs = [ex.submit(run, **j) for j in jobs]
        return [f.result() for f in futs]
