"""Sharded code -> spec trace validation: record real executions in worker processes, write one JSON
batch per shard, let TLC validate every batch against a trace spec, collect per-trace verdicts."""
import concurrent.futures
import json
import os
import random

from . import tlc
from .common import NCPU, chunks

MAX_BATCH = 24 * 1000 * 1000


def _shard_job(args):
    (shard_no, items, recorder, rec_opts, run_dir, modules, trace_module, batch_name, wrap, timeout, specname,
     extra_files) = args
    import importlib
    mod, fn = recorder.rsplit('.', 1)
    rec = getattr(importlib.import_module(mod), fn)
    import time
    t0 = time.time()
    traces = rec(items, rec_opts)
    t1 = time.time()
    d = os.path.join(run_dir, 'shard%02d' % shard_no)
    # bounded batches: a JSON batch above ~25 MB makes the JVM thrash (Gson tree + TLC values)
    batches = []
    cur, size = [], 0
    for t in traces:
        js = json.dumps(t, separators=(',', ':'))
        if cur and size + len(js) > MAX_BATCH:
            batches.append(cur)
            cur, size = [], 0
        cur.append(js)
        size += len(js)
    if cur or not batches:
        batches.append(cur)
    rej, summ = [], []
    distinct = generated = 0
    for b in batches:
        body = '[' + ','.join(b) + ']'
        if wrap:
            head = json.dumps(wrap([]), separators=(',', ':'))
            assert head.endswith('"traces":[]}')
            body = head[:-3] + body + '}'
        files = dict(extra_files or {})
        files[batch_name] = body
        tlc.prepare(d, modules, files)
        res = tlc.run(d, trace_module, 'SPECIFICATION %s\n' % specname, workers=1, timeout=timeout, heap='3g')
        s1 = res.printed('SUMMARY')
        if not s1:
            raise tlc.TLCError('trace spec %s did not reach its end:\n%s' % (trace_module, res.out[-2500:]))
        rej += res.printed('REJECT')
        summ += s1
        distinct += res.distinct
        generated += res.generated
    t2 = time.time()
    if os.environ.get('VERIF_DEBUG'):
        print('shard', shard_no, len(items), 'record %.1fs tlc %.1fs batches %d' % (t1 - t0, t2 - t1, len(batches)),
              flush=True)
    summ = [['SUMMARY', sum(x[1] for x in summ), sum(x[2] for x in summ)]]
    by_id = {t['id']: t for t in traces}
    rejected = []
    for r in rej:
        t = by_id.get(r[1])
        rejected.append({'reject': r, 'trace': _slim(t)})
    rng = random.Random(shard_no)
    sample = _slim(rng.choice(traces)) if traces else None
    nontrivial = sum(1 for t in traces if t.get('nontrivial'))
    # drop the batch (it can be large); keep nothing else
    try:
        os.remove(os.path.join(d, batch_name))
    except OSError:
        pass
    return {'n': len(traces), 'accepted': summ[-1][1], 'rejected_n': summ[-1][2], 'rejected': rejected,
            'states': distinct, 'generated': generated, 'sample': sample, 'nontrivial': nontrivial}


def _slim(t):
    if t is None:
        return None
    out = {k: v for k, v in t.items() if k in ('id', 'ver', 'text', 'origin', 'exc', 'raised', 'kind', 'extra')}
    if 'text' not in out and 'inp' in t:
        out['text'] = ''.join(chr(c) for c in t['inp'])
    return out


class _Wrap:
    """picklable batch wrapper {groups:[...], traces:[...]}"""

    def __init__(self, **extra):
        self.extra = extra

    def __call__(self, traces):
        d = dict(self.extra)
        d['traces'] = traces
        return d


def validate(items, recorder, rec_opts, run_dir, modules, trace_module, batch_name='batch.json',
             wrap_extra=None, nshards=None, timeout=1500, specname='Spec', extra_files=None):
    """items: list of JSON-able work items (each must lead to one trace with a unique 'id')."""
    nshards = nshards or NCPU
    parts = chunks(items, nshards)
    wrap = _Wrap(**wrap_extra) if wrap_extra is not None else None
    jobs = [(i, part, recorder, rec_opts, run_dir, modules, trace_module, batch_name, wrap, timeout, specname, extra_files)
            for i, part in enumerate(parts)]
    tot = {'n': 0, 'accepted': 0, 'rejected_n': 0, 'rejected': [], 'states': 0, 'generated': 0,
           'samples': [], 'nontrivial': 0}
    if not jobs:
        return tot
    with concurrent.futures.ProcessPoolExecutor(max_workers=min(NCPU, len(jobs))) as ex:
        for r in ex.map(_shard_job, jobs):
            for k in ('n', 'accepted', 'rejected_n', 'states', 'generated', 'nontrivial'):
                tot[k] += r[k]
            tot['rejected'] += r['rejected']
            if r['sample'] is not None:
                tot['samples'].append(r['sample'])
    return tot
