"""Demonstrations that the trace specs are bound to what the code logged: corrupt one recorded field or
drop one event and show TLC rejects the trace (recorded in the evidence of every run)."""
import copy
import json
import os

from . import record, tlc


def binding_tokens(run_dir):
    base = record.token_trace(1, 'if x:\n    y = (1,\n 2)  # c\nz\n', '3.9')
    variants = [('unchanged', base, None)]
    t = copy.deepcopy(base); t['id'] = 2; t['toks'][3]['c'] += 1
    variants.append(('column+1', t, 'TruePos'))
    t = copy.deepcopy(base); t['id'] = 3; del t['toks'][2]
    variants.append(('dropped-token', t, 'Tiles'))
    t = copy.deepcopy(base); t['id'] = 4
    k = [i for i, x in enumerate(t['toks']) if x['t'] == 'DEDENT'][0]; del t['toks'][k]
    variants.append(('dropped-dedent', t, 'Balanced'))
    t = copy.deepcopy(base); t['id'] = 5; t['toks'][-1]['t'] = 'NAME'
    variants.append(('no-endmarker', t, 'OneEndmarker'))
    t = copy.deepcopy(base); t['id'] = 6
    k = [i for i, x in enumerate(t['toks']) if x['p'] and 35 in x['p']][0]
    # move a character of the following token into the prefix: prefix no longer pure
    variants.append(('impure-prefix', _impure(t, k), 'PurePrefix'))
    tlc.prepare(run_dir, ['TokenStream', 'TokTrace'], {'traces.json': json.dumps([v[1] for v in variants])})
    res = tlc.run(run_dir, 'TokTrace', 'SPECIFICATION Spec\n', workers=1, timeout=120)
    rej = {r[1]: r[3] for r in res.printed('REJECT')}
    ok = 1 not in rej
    detail = {}
    for name, tr, want in variants[1:]:
        got = rej.get(tr['id'])
        detail[name] = got
        ok = ok and got is not None and got.startswith(want)
    return {'ok': ok, 'rejections': detail}


def _impure(t, k):
    # give token k-1's last character to token k's prefix (still tiles, positions adjusted)
    prev = t['toks'][k - 1]
    if not prev['s']:
        return t
    ch = prev['s'].pop()
    t['toks'][k]['p'].insert(0, ch)
    return t
