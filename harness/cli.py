"""./check <id> quick|thorough [--replay PATH]"""
import importlib
import os
import sys
import traceback

from . import result
from .common import Timer
from .tlc import TLCError


def main(argv):
    if len(argv) < 1:
        print('usage: ./check <property-id> quick|thorough [--replay PATH]')
        return 2
    prop = argv[0]
    tier = os.environ.get('VERIF_TIER') or 'quick'
    replay = None
    args = argv[1:]
    i = 0
    while i < len(args):
        if args[i] in ('quick', 'thorough'):
            tier = args[i]
        elif args[i] == '--replay':
            i += 1
            replay = args[i]
        i += 1
    if tier not in ('quick', 'thorough'):
        tier = 'quick'
    t = Timer()
    try:
        mod = importlib.import_module('checks.' + prop)
    except ImportError:
        traceback.print_exc()
        print('no check for %s' % prop)
        return 2
    try:
        if replay:
            return mod.replay(replay)
        out = mod.run(tier)
    except TLCError as e:
        print('MACHINERY-FAILURE: %s' % e)
        return 2
    except Exception:
        traceback.print_exc()
        print('MACHINERY-FAILURE: harness exception')
        return 2
    return result.finish(out, t.s())


if __name__ == '__main__':
    sys.exit(main(sys.argv[1:]))
