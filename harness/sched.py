"""Deterministic scheduling of real threads along a Threads-spec schedule (C18).

Only one thread runs at a time.  A thread gives up control at *yield points* - calls of the functions that
correspond to the spec's actions, observed with sys.settrace - when the imposed schedule says so.  The spec's
abstract steps map to real yield points: lg_* and tc_* to the memoisation functions, each private step tok_i to
a block of consecutive parser / normalizer yield points."""
import gc
import hashlib
import re
import sys
import threading
import types

from .common import import_parso

parso = import_parso()
import parso.grammar as pgrammar  # noqa: E402
import parso.normalizer as pnorm  # noqa: E402
import parso.parser as pparser  # noqa: E402
import parso.python.errors as perrors  # noqa: E402
import parso.python.parser as ppparser  # noqa: E402
import parso.python.pep8 as ppep8  # noqa: E402
import parso.python.tokenize as ptok  # noqa: E402
import parso.pgen2.generator as pgen  # noqa: E402

MEMO_POINTS = {
    pgrammar.load_grammar.__code__: 'lg_lookup',
    pgrammar.Grammar.__init__.__code__: 'lg_create',
    ptok._get_token_collection.__code__: 'tc_lookup',
    ptok._create_token_collection.__code__: 'tc_create',
    # creation of the per-call parser and the start of its run: each is a full abstract step (a preemption between
    # them is where state parked on a shared object by the constructor would be overwritten)
    pparser.BaseParser.__init__.__code__: 'parser_init',
    pparser.BaseParser.parse.__code__: 'parser_parse',
}
PRIVATE_POINTS = {
    pparser.BaseParser._add_token.__code__: 'tok',
    pparser.BaseParser._pop.__code__: 'tok',
    ppparser.Parser.error_recovery.__code__: 'tok',
    perrors.ErrorFinder.visit_leaf.__code__: 'tok',
    pnorm.Normalizer.visit_leaf.__code__: 'tok',
    perrors.ErrorFinder.add_issue.__code__: 'tok',
}
# line granularity inside the two memoisation functions: every line of them is a yield point (a preemption between a
# failed lookup and the store, or in the middle of any loop over the shared table, is a first-use race)
LINE_POINTS = {pgrammar.load_grammar.__code__, ptok._get_token_collection.__code__}
RETURN_POINTS = {   # the moment just before the shared write that follows the function's return
    pgrammar.Grammar.__init__.__code__: 'lg_setdefault',
    ptok._create_token_collection.__code__: 'tc_store',
}


def interpreter_settings():
    return {'recursionlimit': sys.getrecursionlimit(), 'switchinterval': sys.getswitchinterval(), 'gc': gc.isenabled(),
            'dont_write_bytecode': sys.dont_write_bytecode}


def reset_memo():
    pgrammar._loaded_grammars.clear()
    ptok._token_collection_cache.clear()


class Run:
    """programs: {tid: callable}; schedule: list of thread ids (one per abstract step)"""

    def __init__(self, programs, schedule, block=25, offset=0, line_mode=False):
        """line_mode: only the memoisation functions yield, at every call AND every line of them (first-use races at
        line granularity); the private steps never preempt"""
        self.line_mode = line_mode
        self.memo_points = {t: 0 for t in programs}
        self.programs = programs
        self.segments = []
        for t in schedule:
            if isinstance(t, (tuple, list)):          # (thread, number of steps)
                self.segments.append([t[0], t[1]])
                continue
            if self.segments and self.segments[-1][0] == t:
                self.segments[-1][1] += 1
            else:
                self.segments.append([t, 1])
        self.block = block
        self.offset = offset
        self.go = {t: threading.Event() for t in programs}
        self.finished = {t: False for t in programs}
        self.results = {t: None for t in programs}
        self.errors = {}
        self.seg = 0
        self.left = self.segments[0][1] if self.segments else 0
        self.priv = {t: 0 for t in programs}
        self.lock = threading.Lock()
        self.all_done = threading.Event()
        self.yields = {t: 0 for t in programs}
        # interpreter-wide settings every thread sees: sampled at every yield point (a call that changes one of them
        # temporarily leaves no trace once it has returned, but the other threads run under it meanwhile)
        self.base_env = interpreter_settings()
        self.env_changes = set()

    # -- scheduling -------------------------------------------------------------------------------
    def current(self):
        while self.seg < len(self.segments) and self.finished.get(self.segments[self.seg][0], True):
            self.seg += 1
            self.left = self.segments[self.seg][1] if self.seg < len(self.segments) else 0
        if self.seg < len(self.segments):
            return self.segments[self.seg][0]
        for t, f in self.finished.items():        # schedule exhausted: run the rest to completion
            if not f:
                return t
        return None

    def abstract_step(self, tid):
        """the running thread completed one abstract step; switch when its segment is used up"""
        if self.seg >= len(self.segments) or self.segments[self.seg][0] != tid:
            return
        self.left -= 1
        if self.left <= 0:
            self.seg += 1
            self.left = self.segments[self.seg][1] if self.seg < len(self.segments) else 0
            self.handoff(tid)

    def handoff(self, me):
        nxt = self.current()
        if nxt is None or nxt == me:
            return
        self.go[me].clear()
        self.go[nxt].set()
        self.go[me].wait()

    def point(self, tid, label):
        self.yields[tid] += 1
        env = interpreter_settings()
        if env != self.base_env:
            self.env_changes.update(k for k in env if env[k] != self.base_env[k])
        if label == 'tok':
            if self.line_mode:
                return
            self.priv[tid] += 1
            if (self.priv[tid] + self.offset) % self.block:
                return
        elif label == 'memo_line':
            if not self.line_mode:
                return
            self.memo_points[tid] += 1
        else:
            self.memo_points[tid] += 1
        self.abstract_step(tid)

    # -- threads ------------------------------------------------------------------------------------
    def tracer(self, tid):
        def local(frame, event, arg):
            if event == 'return':
                lab = RETURN_POINTS.get(frame.f_code)
                if lab:
                    self.point(tid, lab)
            elif event == 'line' and frame.f_code in LINE_POINTS:
                self.point(tid, 'memo_line')
            return local

        def glob(frame, event, arg):
            if event != 'call':
                return None
            code = frame.f_code
            lab = MEMO_POINTS.get(code) or PRIVATE_POINTS.get(code)
            if lab:
                self.point(tid, lab)
                if code in RETURN_POINTS or code in LINE_POINTS:
                    return local
            return None
        return glob

    def body(self, tid):
        self.go[tid].wait()
        sys.settrace(self.tracer(tid))
        try:
            self.results[tid] = self.programs[tid]()
        except BaseException as e:  # noqa
            from . import record
            self.errors[tid] = record.exc_key(e)
        finally:
            sys.settrace(None)
            self.finished[tid] = True
            nxt = self.current()
            if nxt is None:
                self.all_done.set()
            else:
                self.go[nxt].set()

    def run(self, timeout=120):
        threads = [threading.Thread(target=self.body, args=(t,), daemon=True) for t in self.programs]
        for th in threads:
            th.start()
        first = self.current()
        if first is None:
            return
        self.go[first].set()
        self.all_done.wait(timeout)
        for th in threads:
            th.join(1)
        if not self.all_done.is_set():
            self.errors['scheduler'] = 'timeout: threads did not finish'


# ---------------------------------------------------------------------------------------------------
# structural fingerprint of the shared state
# ---------------------------------------------------------------------------------------------------
MODULES = [pgrammar, ptok, pnorm, perrors, ppep8, pgen, pparser, ppparser]
try:
    import parso.python.tree as _pt
    import parso.tree as _t
    import parso.utils as _u
    import parso.python.prefix as _pp
    import parso.python.token as _ptk
    import parso.pgen2.grammar_parser as _gp
    MODULES += [_pt, _t, _u, _pp, _ptk, _gp]
except ImportError:
    pass


def _h(*parts):
    m = hashlib.sha1()
    for p in parts:
        m.update(repr(p).encode('utf-8', 'replace'))
        m.update(b'|')
    return m.hexdigest()[:16]


def fingerprint():
    memo = {}

    def fp(o, depth=0):
        if o is None or isinstance(o, (bool, int, float, str, bytes)):
            return _h(type(o).__name__, o)
        oid = id(o)
        if oid in memo:
            return memo[oid]
        memo[oid] = 'cycle'
        if depth > 60:
            r = 'deep'
        elif isinstance(o, (list, tuple)):
            r = _h(type(o).__name__, [fp(x, depth + 1) for x in o])
        elif isinstance(o, (set, frozenset)):
            # sets of objects iterate in id order: descending into them would make the fingerprint depend on
            # memory addresses; they are summarised by the types of their members
            r = _h('set', sorted(fp(x, depth + 1) if isinstance(x, (str, int, bytes, tuple, frozenset)) else
                                 type(x).__qualname__ for x in o))
        elif isinstance(o, dict):
            r = _h('dict', sorted((fp(k, depth + 1), fp(v, depth + 1)) for k, v in list(o.items())))
        elif isinstance(o, re.Pattern):
            r = _h('re', o.pattern, o.flags)
        elif isinstance(o, (types.FunctionType, types.BuiltinFunctionType, types.MethodType, types.ModuleType,
                            staticmethod, classmethod, property)):
            r = _h('callable', getattr(o, '__qualname__', getattr(o, '__name__', type(o).__name__)))
        elif isinstance(o, type):
            attrs = {}
            for k, v in list(vars(o).items()):
                if isinstance(v, (dict, list, set, tuple, str, int, bool)) and not k.startswith('__'):
                    attrs[k] = fp(v, depth + 1)
            r = _h('type', o.__qualname__, sorted(attrs.items()))
        else:
            attrs = {}
            d = getattr(o, '__dict__', None)
            if isinstance(d, dict):
                for k, v in list(d.items()):
                    attrs[k] = fp(v, depth + 1)
            for cls in type(o).__mro__:
                for k in getattr(cls, '__slots__', ()) or ():
                    if isinstance(k, str) and hasattr(o, k):
                        try:
                            attrs[k] = fp(getattr(o, k), depth + 1)
                        except Exception:
                            pass
            r = _h('obj', type(o).__qualname__, sorted(attrs.items()))
        memo[oid] = r
        return r
    parts = []
    for mod in MODULES:
        for k, v in sorted(vars(mod).items()):
            if k.startswith('__') or isinstance(v, types.ModuleType):
                continue
            parts.append((mod.__name__, k, fp(v)))
    return _h(parts), parts
