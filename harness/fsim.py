"""Replay of Cache-spec histories into the real parso cache: real files in a scratch directory, one virtual
clock domain for every timestamp (source files, pickles, parso.cache.time), an injected FileIO and wrapped
os/open inside parso.cache as preemption points, a second "process" emulated by swapping parser_cache."""
import glob
import os
import pickle
import shutil
import threading
import types
from pathlib import Path

from .common import import_parso
from . import record

parso = import_parso()
import parso.cache as pcache  # noqa: E402
from parso.file_io import FileIO  # noqa: E402

BASE = 1_000_000_000.0          # virtual epoch; real mtimes (2026) are far above -> recognisable
UNIT = 1000.0

CONTENT_TEXT = {'a': 'x = 1\n', 'b': 'def f(a):\n    return a + 2\n', 'c': 'class C:\n    y = [\n', 'd': ''}
GRAMMAR_VERSION = {'g1': '3.8', 'g2': '3.12'}


def ev(name, g='', p='', d='', c='', src='', must='', files=()):
    return {'ev': name, 'g': g, 'p': p, 'd': d, 'c': c, 'src': src, 'must': must, 'files': list(files)}


class _Crash(BaseException):
    """the emulated process dies (not an Exception: nothing in parso may swallow it)"""


class World:
    def __init__(self, root, paths=('p1', 'p2'), dirs=('d1', 'd2'), init_content='a', size_trigger=None):
        self.size_trigger = size_trigger
        self.root = root
        shutil.rmtree(root, ignore_errors=True)
        os.makedirs(root)
        self.clock = 1
        self.src = {p: os.path.join(root, p + '.py') for p in paths}
        self.dirs = {d: Path(os.path.join(root, 'cache_' + d)) for d in dirs}
        self.grammars = {g: parso.load_grammar(version=v) for g, v in GRAMMAR_VERSION.items()}
        self.mem = {'main': {}, 'other': {}}
        self.active = 'main'
        pcache.parser_cache.clear()
        for p in paths:
            self._write(p, init_content, 1)
        self.worker = None
        self.events = []            # A-level trace for TLC: Start / Write / Return
        self.drift = []
        self.fault = None
        self.install()

    # ---- virtual time -------------------------------------------------------------------------
    def vt(self, clock=None):
        return BASE + (self.clock if clock is None else clock) * UNIT

    def _write(self, p, c, clock):
        with open(self.src[p], 'w', newline='') as f:
            f.write(CONTENT_TEXT[c])
        os.utime(self.src[p], (self.vt(clock), self.vt(clock)))

    def restamp(self):
        """every file the real OS just stamped with wall-clock time gets the current virtual time"""
        for d in self.dirs.values():
            for f in glob.glob(os.path.join(str(d), '**', '*'), recursive=True):
                try:
                    if os.path.isfile(f) and os.path.getmtime(f) > BASE * 1.5:
                        os.utime(f, (self.vt(), self.vt()))
                except OSError:
                    pass

    # ---- hooks inside parso.cache ---------------------------------------------------------------
    def install(self):
        world = self
        real_os = os
        self._saved = (pcache.os, getattr(pcache, 'open', None), pcache.time)
        self._saved_trigger = pcache._CACHED_SIZE_TRIGGER
        if self.size_trigger:
            # make the size-triggered eviction of _set_cache_item run in small histories (it is a module setting)
            pcache._CACHED_SIZE_TRIGGER = self.size_trigger

        class PathShim:
            def __getattr__(self, name):
                return getattr(real_os.path, name)

            def getmtime(self, p):
                if str(p).endswith('.pkl'):
                    world.point('diskstat')
                return real_os.path.getmtime(p)

        class OsShim:
            path = PathShim()

            def __getattr__(self, name):
                return getattr(real_os, name)

        def hooked_open(file, mode='r', *a, **kw):
            if str(file).endswith('.pkl'):
                if 'w' in mode:
                    world.point('diskstore')
                    f = open(file, mode, *a, **kw)
                    if world.fault and world.fault[0] == 'crash' and world.in_worker():
                        return _TornFile(f, world.fault[1])
                    return f
                world.point('diskload')
            return open(file, mode, *a, **kw)

        pcache.os = OsShim()
        pcache.open = hooked_open
        pcache.time = types.SimpleNamespace(time=lambda: world.vt())

    def uninstall(self):
        pcache.os, op, pcache.time = self._saved
        pcache._CACHED_SIZE_TRIGGER = self._saved_trigger
        if op is None:
            try:
                del pcache.open
            except AttributeError:
                pass
        else:
            pcache.open = op
        pcache.parser_cache.clear()

    def in_worker(self):
        return self.worker is not None and threading.current_thread() is self.worker['thread']

    def point(self, name):
        """called from inside parso at a preemption point; only the worker's points are scheduling points"""
        if not self.in_worker():
            return
        w = self.worker
        w['at'] = name
        w['reached'].set()
        w['go'].wait()
        w['go'].clear()
        w['at'] = None

    # ---- the other process --------------------------------------------------------------------
    def switch(self, who):
        if who == self.active:
            return
        self.mem[self.active] = {k: dict(v) for k, v in pcache.parser_cache.items()}
        pcache.parser_cache.clear()
        for k, v in self.mem[who].items():
            pcache.parser_cache[k] = dict(v)
        self.active = who

    def pickle_path(self, d, g, p):
        gr = self.grammars[g]
        return pcache._get_hashed_path(gr._hashed, Path(self.src[p]), cache_path=self.dirs[d])

    # ---- the main call in a worker thread --------------------------------------------------------
    def start(self, g, p, d, diff=False):
        self.finish_call()
        world = self

        class HookedIO(FileIO):
            def get_last_modified(self):
                world.point('stat')
                return super().get_last_modified()

            def read(self):
                world.point('read')
                return super().read()

        w = {'reached': threading.Event(), 'go': threading.Event(), 'at': None, 'done': False, 'result': None,
             'g': g, 'p': p, 'd': d}

        def body():
            try:
                m = world.grammars[g].parse(file_io=HookedIO(world.src[p]), cache=True, cache_path=world.dirs[d],
                                            diff_cache=bool(diff))
                w['result'] = ('tree', m.get_code(), world.grammars[g].parse(m.get_code()).dump(indent=None) ==
                               m.dump(indent=None))
            except _Crash:
                w['result'] = ('crash',)
            except BaseException as e:  # noqa
                w['result'] = ('raised', record.exc_key(e))
            w['done'] = True
            w['reached'].set()
        w['thread'] = threading.Thread(target=body, daemon=True)
        self.worker = w
        self.events.append(ev('Start', g, p, d))
        w['thread'].start()
        self._wait()

    def _wait(self):
        w = self.worker
        w['reached'].wait(60)
        w['reached'].clear()

    def advance(self, expect):
        """release the worker from its current point if it is the expected one"""
        w = self.worker
        if w is None or w['done']:
            return False
        if w['at'] != expect:
            return False
        w['go'].set()
        self._wait()
        if w['done']:
            self._complete()
        return True

    def finish_call(self):
        w = self.worker
        if w is None:
            return
        n = 0
        while not w['done'] and n < 50:
            w['go'].set()
            self._wait()
            n += 1
        if w['done'] and not w.get('completed'):
            self._complete()
        self.worker = None

    def _complete(self):
        w = self.worker
        w['completed'] = True
        self.restamp()
        res = w['result']
        if res[0] == 'tree':
            cid = next((c for c, t in CONTENT_TEXT.items() if t == res[1]), '?')
            self.events.append(ev('Return', w['g'], w['p'], w['d'], cid if res[2] else 'WRONGTREE'))
        elif res[0] == 'crash':
            pcache.parser_cache.clear()          # the process died
            self.events.append(ev('Crash', w['g'], w['p'], w['d']))
        else:
            self.events.append(ev('Return', w['g'], w['p'], w['d'], 'RAISED:' + res[1]))
        self.fault = None

    # ---- environment actions ---------------------------------------------------------------------
    def do(self, act):
        name = act[0]
        if name == 'Tick':
            self.clock += 1
        elif name == 'Write':
            self.clock += 1
            self._write(act[1], act[2], self.clock)
            self.events.append(ev('Write', '', act[1], '', act[2]))
        elif name == 'Restart':
            self.finish_call()
            pcache.parser_cache.clear()
        elif name == 'Evict':
            gr = self.grammars[act[1]]
            pcache.parser_cache.get(gr._hashed, {}).pop(Path(self.src[act[2]]), None)
        elif name == 'RemoveFile':
            try:
                os.remove(self.pickle_path(act[1], act[2], act[3]))
            except OSError:
                pass
        elif name == 'Damage':
            f = self.pickle_path(act[1], act[2], act[3])
            try:
                data = open(f, 'rb').read()
                kind = (len(self.events) + self.clock) % 5
                new = [b'', data[:1], data[:len(data) // 2], data[:-1], b'garbage' + data[7:40]][kind]
                with open(f, 'wb') as fh:
                    fh.write(new)
                os.utime(f, (self.vt(), self.vt()))
            except OSError:
                pass
        elif name == 'OtherCall':
            g, p, d = act[1], act[2], act[3]
            self.switch('other')
            try:
                self.grammars[g].parse(path=self.src[p], cache=True, cache_path=self.dirs[d])
            except BaseException as e:  # noqa
                self.drift.append('OtherCall raised %s' % record.exc_key(e))
            self.restamp()
            self.switch('main')
        elif name == 'Start':
            self.start(act[1], act[2], act[3], len(act) > 4 and act[4] in (True, 'TRUE'))
        elif name == 'CrashInStore':
            self.fault = ('crash', (self.clock * 37) % 200)
            if not self.advance('diskstore'):
                self.fault = None
            else:
                self.finish_call()
        elif name in ('Stat1', 'StatCT'):
            self.advance('stat')
        elif name == 'DiskStat':
            self.advance('diskstat')
        elif name == 'DiskLoad':
            self.advance('diskload')
        elif name == 'Read':
            self.advance('read')
        elif name == 'DiskStore':
            self.advance('diskstore')
        elif name in ('MemLookup', 'Store'):
            pass
        elif name == 'Return':
            self.finish_call()
            # drift check: B's predicted tree content versus the last real Return
            want = act[1]
            last = next((e for e in reversed(self.events) if e['ev'] == 'Return'), None)
            if last is not None and isinstance(want, list) and len(want) == 3 and last['c'] != want[2]:
                self.drift.append('Cache spec predicts %s, real call returned %s' % (want, last['c']))

    def close(self):
        self.finish_call()
        self.uninstall()
        shutil.rmtree(self.root, ignore_errors=True)


class _TornFile:
    """a file that accepts `limit` bytes and then the process dies"""

    def __init__(self, f, limit):
        self.f = f
        self.left = limit

    def write(self, data):
        data = bytes(data)
        if len(data) > self.left:
            self.f.write(data[:self.left])
            self.f.flush()
            self.f.close()
            raise _Crash()
        self.left -= len(data)
        return self.f.write(data)

    def __enter__(self):
        return self

    def __exit__(self, *a):
        try:
            self.f.close()
        except Exception:
            pass
        return False

    def __getattr__(self, name):
        return getattr(self.f, name)


def replay(root, hist, size_trigger=None):
    """execute one Cache-spec history; returns (A-level events, drift messages)"""
    w = World(root, size_trigger=size_trigger)
    try:
        for act in hist:
            w.do(act)
        w.finish_call()
        return w.events, w.drift
    finally:
        w.close()
