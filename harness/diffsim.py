"""C04 support: line pool / blocks for EditHistory, rendering of documents, replay of an edit history through the
real diff parser with its own debug log captured as events."""
import json
import logging
import re

from . import record, tlc
from .common import import_parso

parso = import_parso()
from parso import cache as pcache  # noqa: E402
from parso.python import diff as pdiff  # noqa: E402

# line pool (DESIGN A.4): index = line id - 1
POOL = ['x = 1', 'x = [', '1,', ']', 'def f(a, b):', 'return a', 'class C:', 'pass', 'def g(self):', '@dec',
        'if x:', 'elif y:', 'else:', 'for i in y:', 'while x:', 'try:', 'except E:', 'finally:', 'with a as b:',
        'async def h():', 'await q', 'foo(', ')', '"""', 'a \\', 'lambda: 3', "f'{a}'", 'f"{', ' $', '?', '# c', '',
        '\f', '\tz', '   y', 'print(1)', 'import os', 'b = {', '}', "s = '''", 'yield', 'x += 1;', 'del x', 'else',
        'def', ':', 'a = (b,', 'c)']
ID = {t: i + 1 for i, t in enumerate(POOL)}


def doc(*lines):
    """lines: (indent, text)"""
    return [[ID[t], ind] for ind, t in lines]


BLOCKS = [
    doc((0, 'def f(a, b):'), (1, 'x = 1'), (1, 'return a')),
    doc((0, 'class C:'), (1, 'def g(self):'), (2, 'pass'), (1, 'x = 1')),
    doc((0, 'if x:'), (1, 'x = 1'), (0, 'elif y:'), (1, 'pass'), (0, 'else:'), (1, 'print(1)')),
    doc((0, 'x = ['), (1, '1,'), (1, '1,'), (0, ']')),
    doc((0, 'try:'), (1, 'print(1)'), (0, 'except E:'), (1, 'pass'), (0, 'finally:'), (1, 'x = 1')),
    doc((0, '"""'), (0, 'x = 1'), (0, '"""')),
    doc((0, '@dec'), (0, 'async def h():'), (1, 'await q'), (1, 'yield')),
    doc((0, 'for i in y:'), (1, 'while x:'), (2, 'with a as b:'), (3, 'pass')),
    doc((0, 'foo('), (1, 'lambda: 3'), (0, ')')),
    doc((0, 'a \\'), (0, 'x = 1')),
    doc((0, 'a = (b,'), (2, 'c)'), (0, '# c'), (0, '')),
]
BASES = [
    BLOCKS[0] + BLOCKS[1],
    BLOCKS[2] + doc((0, 'x = 1')),
    BLOCKS[1] + BLOCKS[4] + doc((0, 'print(1)')),
    doc((0, 'import os'), (0, '')) + BLOCKS[6] + BLOCKS[3],
    BLOCKS[7] + BLOCKS[8] + BLOCKS[5],
    doc((0, 'x = 1'), (0, ''), (0, '# c')) + BLOCKS[0] + doc((0, ''), (0, '')) + BLOCKS[10],
    [],
    doc((0, 'x = 1')),
]
EDIT_LINES_SMALL = [ID[t] for t in ('x = 1', 'def f(a, b):', 'pass', 'if x:', 'else:', 'foo(', ')', '"""', ' $', '',
                                    '# c', 'a \\')]
ALL_OPS = ['insert', 'delete', 'replace', 'block', 'indent', 'duplicate', 'swap', 'undo', 'togglenl', 'togglebom']


def eh_json(bases, lines, ops, maxlen=24, maxsteps=1, maxindent=2):
    return json.dumps({'npool': len(POOL), 'blocks': BLOCKS, 'bases': bases, 'maxlen': maxlen, 'maxsteps': maxsteps,
                       'maxindent': maxindent, 'ops': ops, 'lines': lines})


def generate(run_dir, bases, lines, ops, maxsteps, simulate=None, seed=0, maxlen=24, workers=4):
    """TLC-enumerated (or simulated) edit histories: list of lists of snapshots {doc, nl, bom}"""
    tlc.prepare(run_dir, ['EditHistory'], {'eh.json': eh_json(bases, lines, ops, maxlen=maxlen, maxsteps=maxsteps)})
    res = tlc.run(run_dir, 'EditHistory', 'SPECIFICATION Spec\n', workers=workers if not simulate else 2,
                  timeout=900, simulate=('num=%d' % simulate) if simulate else None,
                  depth=(maxsteps + 3) if simulate else None, seed=seed if simulate else None, heap='8g')
    seen = set()
    out = []
    for e in res.printed('EDITS'):
        k = json.dumps(e[1])
        if k not in seen:
            seen.add(k)
            out.append(e[1])
    return out, res


def render(snap, newline='\n', unit='    '):
    lines = []
    for lid, ind in snap['doc']:
        lines.append(unit * ind + POOL[lid - 1])
    text = newline.join(lines)
    if lines and snap['nl']:
        text += newline
    if snap['bom']:
        text = '﻿' + text
    return text


class _LogEvents(logging.Handler):
    def __init__(self):
        super().__init__(level=logging.DEBUG)
        self.events = []

    def emit(self, rec):
        try:
            msg = rec.getMessage()
        except Exception:
            return
        m = re.match(r'-> code\[(\w+)\] old\[(\d+):(\d+)\] new\[(\d+):(\d+)\]', msg)
        if m:
            if m.group(1) == 'equal':
                self.events.append({'ev': 'opcode', 'a': int(m.group(4)) - int(m.group(2)), 'b': 0})
            return
        m = re.match(r'copy old\[(-?\d+):(-?\d+)\] new\[(-?\d+):(-?\d+)\]', msg)
        if m:
            self.events.append({'ev': 'copy', 'a': int(m.group(3)), 'b': int(m.group(4))})
            return
        m = re.match(r'parse_part from (-?\d+) to (-?\d+)', msg)
        if m:
            self.events.append({'ev': 'parse', 'a': int(m.group(1)), 'b': int(m.group(2))})


def used_sig(module):
    try:
        un = module.get_used_names()
        return sorted((k, sorted(n.start_pos for n in v)) for k, v in un.items())
    except Exception as e:  # noqa
        return 'raised:' + record.exc_key(e)


def replay_history(tid, snaps, version, newline='\n', unit='    ', path='/virtual/diff_%d.py', want_tree=False):
    """feed the rendered documents to parse(diff_cache=True); returns the DiffTrace trace (+ final tree table)"""
    g = parso.load_grammar(version=version)
    p = path % tid
    interned = {}

    def I(x):
        key = json.dumps(x) if not isinstance(x, str) else x
        return interned.setdefault(key, len(interned) + 1)

    handler = _LogEvents()
    log = pdiff.LOG
    old_level = log.level
    log.addHandler(handler)
    log.setLevel(logging.DEBUG)
    steps = []
    texts = [render(s, newline, unit) for s in snaps]
    module = None
    try:
        pcache.parser_cache.pop(g._hashed, None)
        prev_lines = None
        for i, text in enumerate(texts):
            handler.events = []
            st = {'old': [], 'new': [], 'events': [], 'tree': 0, 'fresh': 0, 'code': 0, 'text': I('T' + text),
                  'used': 0, 'fused': 0, 'raised': '', 'textraw': text}
            lines = parso.split_lines(text, keepends=True)
            st['new'] = [I('L' + l) for l in lines]
            st['old'] = [I('L' + l) for l in (prev_lines or [])]
            try:
                if module is not None:
                    module.get_used_names()            # warm the derived index: it must be invalidated
                module = g.parse(text, diff_cache=True, path=p)
                fresh = g.parse(text)
                st['tree'] = I('D' + module.dump(indent=None))
                st['fresh'] = I('D' + fresh.dump(indent=None))
                st['code'] = I('T' + module.get_code())
                st['used'] = I(used_sig(module))
                st['fused'] = I(used_sig(fresh))
            except Exception as e:  # noqa
                st['raised'] = record.exc_key(e)
                module = None
                pcache.parser_cache.pop(g._hashed, None)
            st['events'] = handler.events if i > 0 else []
            prev_lines = lines
            steps.append(st)
    finally:
        log.removeHandler(handler)
        log.setLevel(old_level)
        pcache.parser_cache.pop(g._hashed, None)
    return {'id': tid, 'ver': version, 'steps': steps, 'nontrivial': any(
        e['ev'] == 'copy' for s in steps for e in s['events'])}, module, texts


def rec_diff(items, opts):
    """pipeline recorder: items = [id, snaps, version, style]"""
    out = []
    for tid, snaps, ver, style in items:
        nl = '\r\n' if style % 4 == 1 else ('\r' if style % 4 == 3 else '\n')
        unit = '  ' if style % 5 == 2 else '    '
        tr, module, texts = replay_history(tid, snaps, ver, nl, unit)
        tr['origin'] = 'edits'
        tr['text'] = ' || '.join(repr(t) for t in texts)[:3000]
        tr['style'] = style
        tr['snaps'] = snaps
        for s in tr['steps']:
            s.pop('textraw', None)
        out.append(tr)
    return out


def rec_final_tree(items, opts):
    """pipeline recorder for TreeTrace: the module after the whole history, serialised like any other tree"""
    from .common import cps
    out = []
    for tid, snaps, ver, style in items:
        nl = '\r\n' if style % 4 == 1 else ('\r' if style % 4 == 3 else '\n')
        unit = '  ' if style % 5 == 2 else '    '
        tr = {'id': tid, 'ver': ver, 'origin': 'edits', 'inp': [], 'nodes': [], 'posq': [], 'raised': False, 'exc': '',
              'nontrivial': True, 'aux': {'sraised': False, 'sval': [], 'ss': [0, 0], 'sdump': 0, 'rdump': 0, 'stt': ''}}
        try:
            t, module, texts = replay_history(tid, snaps, ver, nl, unit, path='/virtual/final_%d.py')
            tr['inp'] = cps(texts[-1])
            tr['text'] = texts[-1]
            if module is None:
                raise RuntimeError('no module: ' + t['steps'][-1]['raised'])
            nodes, excs, order = record.tree_table(module, nav=True, parts=False, code_budget=20000)
            tr['nodes'] = nodes
            tr['exc'] = ';'.join(sorted(set(excs)))
        except Exception as e:  # noqa
            tr['raised'] = True
            tr['exc'] = record.exc_key(e)
        out.append(tr)
    return out
