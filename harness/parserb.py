"""ParserB support: export tables + token label classes for one grammar version, run TLC, render abstract
token streams to text, replay into the real parser."""
import json
import os
import re

from . import pgen_export, tlc
from .common import import_parso

parso = import_parso()
from parso.python.tokenize import _get_token_collection  # noqa: E402
from parso.utils import parse_version_string  # noqa: E402

SPECIAL = [['T', 'ERRORTOKEN'], ['T', 'ERRORTOKEN_NL'], ['T', 'ERROR_DEDENT']]
PREFERRED = [['T', 'NAME'], ['T', 'NUMBER'], ['T', 'STRING'], ['T', 'NEWLINE'], ['T', 'INDENT'], ['T', 'DEDENT'],
             ['T', 'ENDMARKER'], ['S', '('], ['S', ')'], ['S', '['], ['S', ']'], ['S', '{'], ['S', '}'], ['S', ':'],
             ['S', ','], ['S', '='], ['S', '.'], ['S', '+'], ['S', '*'], ['S', '**'], ['S', '<'], ['S', '+='],
             ['S', 'if'], ['S', 'else'], ['S', 'def'], ['S', 'class'], ['S', 'return'], ['S', 'pass'], ['S', 'for'],
             ['S', 'in'], ['S', 'import'], ['S', 'lambda'], ['S', 'not'], ['S', 'and'], ['S', 'or']]


def label_classes(rec, breakkw):
    """partition all tokens into classes with identical plans in every DFA state (and equal break-keyword-ness)"""
    sig = {}
    states = [(ri, si, st) for ri, r in enumerate(rec['rules']) for si, st in enumerate(r['dfa'])]
    toks = set()
    for _, _, st in states:
        for p in st['plans']:
            toks.add(tuple(p[0]))
    for sp in SPECIAL:
        toks.add(tuple(sp))
    for t in toks:
        sig[t] = []
    for ri, si, st in states:
        present = {}
        for p in st['plans']:
            present[tuple(p[0])] = (p[1], json.dumps(p[2]))
        for t in toks:
            if t in present:
                sig[t].append((ri, si) + present[t])
    classes = {}
    for t in toks:
        special = t if (t[0] == 'T' and t[1] in ('ERRORTOKEN_NL', 'ERROR_DEDENT', 'INDENT', 'DEDENT', 'NEWLINE',
                                                 'ENDMARKER')) else None
        key = (tuple(sig[t]), t[0] == 'S' and t[1] in breakkw, special)
        classes.setdefault(key, []).append(list(t))
    out = []
    pref = [tuple(x) for x in PREFERRED]
    for members in classes.values():
        members.sort()
        rep = None
        for p in pref:
            if list(p) in members:
                rep = list(p)
                break
        out.append({'rep': rep or members[0], 'members': members})
    out.sort(key=lambda c: c['rep'])
    return out


def export(run_dir, version, mode='recover', env='tokenv', hist=False, maxtok=5, maxindent=2, start='file_input',
           maxdepth=60, closeat=0, errlevels=(), errbudget=0, scripts=None):
    rec, tb = pgen_export.grammar_record(pgen_export.grammar_text(version))
    assert rec['verdict'] == 'ok'
    tc = _get_token_collection(parse_version_string(version))
    breakkw = sorted(tc.always_break_tokens)
    classes = label_classes(rec, breakkw)
    labels = [c['rep'] for c in classes]
    tid = {tuple(l): i + 1 for i, l in enumerate(labels)}
    pm = []
    for r in rec['rules']:
        row = []
        for st in r['dfa']:
            cell = [[] for _ in labels]
            for p in st['plans']:
                if tuple(p[0]) in tid:
                    cell[tid[tuple(p[0])] - 1] = [p[1], p[2]]
            row.append(cell)
        pm.append(row)
    ids = {n: tid[('T', n)] for n in ('NEWLINE', 'INDENT', 'DEDENT', 'ENDMARKER', 'ERROR_DEDENT', 'ERRORTOKEN_NL')}
    pb = {'labels': labels, 'breakkw': [tid[('S', k)] for k in breakkw if ('S', k) in tid], 'pm': pm, 'ids': ids,
          'start': start, 'mode': mode, 'env': env, 'hist': hist, 'maxindent': maxindent, 'maxtok': maxtok,
          'maxdepth': maxdepth, 'closeat': closeat, 'errlevels': list(errlevels), 'errbudget': errbudget}
    closers = [('T', 'NEWLINE'), ('T', 'DEDENT'), ('T', 'ENDMARKER')]
    if env != 'tokenv':
        closers += [('S', ')'), ('S', ']'), ('S', '}'), ('T', 'NAME'), ('T', 'NUMBER'), ('S', ':'), ('S', 'pass'),
                    ('T', 'FSTRING_END'), ('S', 'else'), ('S', 'in')]
    pb['closers'] = [tid[c] for c in closers if c in tid]
    rep = {}
    for c in classes:
        for m in c['members']:
            rep[tuple(m)] = tuple(c['rep'])
    pb['scripts'] = [[tid[rep[tuple(l)]] for l in sc] for sc in (scripts or [])]
    os.makedirs(run_dir, exist_ok=True)
    tlc.prepare(run_dir, ['Ebnf', 'Conform', 'TokEnv', 'ParserB'], {'gs.json': pgen_export.to_json([rec]), 'pb.json': json.dumps(pb)})
    return {'classes': classes, 'labels': labels, 'rec': rec, 'pb': pb, 'tid': tid}


INVARIANTS = ['NeverCrash', 'NodesConform', 'FilterInert', 'StrictNeverRecovers', 'DoneIsComplete', 'OmitWellFormed']


def cfg(constraint=True):
    s = 'SPECIFICATION Spec\n' + ''.join('INVARIANT %s\n' % i for i in INVARIANTS)
    if constraint:
        s += 'CONSTRAINT Bound\n'
    return s


# --------------------------------------------------------------------------------------------
# abstract token stream -> text
# --------------------------------------------------------------------------------------------
SPELL = {
    # names that are NOT reserved words but look like them: prefixes, compatibility characters whose NFKC form is a
    # keyword (the tokenizer yields one NAME; only exact reserved strings may take a keyword transition)
    'NAME': ['x', 'foo', 'y1', 'été', '_', 'iff', 'print', '\uff49\uff46', '\uff44\uff45\uff46', '\uff2e\uff4f\uff4e\uff45', '\uff4f\uff52'],
    'NUMBER': ['1', '0x1f', '2.5', '1e3', '3j', '1_000'],
    'STRING': ['"s"', "'s'", 'b"b"', 'r"r"', '"""t"""'],
    'FSTRING_START': ['f"'],
    'FSTRING_STRING': ['t'],
    'FSTRING_END': ['"'],
    'ERRORTOKEN': ['$', '?', '`'],
}
_WORDY = re.compile(r'[\w]')


def render(labels, rng=None, indent_unit='    ', newline='\n', vary=False):
    """labels: list of [kind, value]. Returns text or None when the stream has no rendering."""
    out = []
    line_start = True
    ind = [0]
    fdepth = 0
    fq = []          # quote characters of the open f-strings (nested ones must use the other quote)
    prev = ''
    n = len(labels)
    for i, (kind, val) in enumerate(labels):
        if kind == 'T' and val == 'ENDMARKER':
            break
        if kind == 'T' and val == 'INDENT':
            if not line_start:
                return None
            ind.append(ind[-1] + len(indent_unit))
            continue
        if kind == 'T' and val == 'DEDENT':
            if len(ind) < 2:
                return None
            ind.pop()
            continue
        if kind == 'T' and val == 'ERROR_DEDENT':
            if len(ind) < 2 or ind[-1] - ind[-2] < 2:
                return None
            ind[-1] = ind[-1] - 2 if ind[-1] - 2 > ind[-2] else ind[-2] + 1
            continue
        if kind == 'T' and val == 'NEWLINE':
            out.append(newline)
            line_start = True
            prev = ''
            fdepth = 0
            fq = []
            continue
        if kind == 'T' and val == 'ERRORTOKEN_NL':
            text = '"""abc' + newline
        elif kind == 'T':
            choices = SPELL.get(val)
            if not choices:
                return None
            text = rng.choice(choices) if (vary and rng) else choices[0]
            if val == 'FSTRING_START':
                q = '"' if '"' not in fq else ("'" if "'" not in fq else None)
                if q is None:
                    return None
                fq.append(q)
                text = 'f' + q
            elif val == 'FSTRING_END':
                text = fq.pop() if fq else '"'
            elif val == 'STRING' and fq:
                q = '"' if '"' not in fq else ("'" if "'" not in fq else None)
                if q is None:
                    return None
                text = q + 's' + q
        else:
            text = val
        if line_start:
            out.append(' ' * ind[-1])
            line_start = False
        elif fdepth > 0:
            if _WORDY.match(prev[-1:] or ' ') and _WORDY.match(text[:1]):
                out.append(' ')
        else:
            out.append(' ')
        if kind == 'T' and val == 'FSTRING_START':
            fdepth += 1
        elif kind == 'T' and val == 'FSTRING_END' and fdepth > 0:
            fdepth -= 1
        out.append(text)
        prev = text
    return ''.join(out)


class Relabel:
    """real tokens / leaves -> class representative ids of an export"""

    def __init__(self, info, version):
        self.info = info
        self.rep = {}
        for c in info['classes']:
            for m in c['members']:
                self.rep[tuple(m)] = tuple(c['rep'])
        self.tid = info['tid']
        self.grammar = parso.load_grammar(version=version)
        self.reserved = self.grammar._pgen_grammar.reserved_syntax_strings
        self.version = version

    def label(self, type_name, value):
        if type_name in ('NAME', 'OP') and value in self.reserved:
            lab = ('S', value)
        elif type_name == 'ERRORTOKEN' and (value.endswith('\n') or value.endswith('\r')):
            lab = ('T', 'ERRORTOKEN_NL')
        else:
            lab = ('T', type_name)
        if lab not in self.rep:
            lab = ('T', 'ERRORTOKEN')        # tokens without any plan (OP that is no operator of the grammar, ...)
        return self.rep[lab]

    def token_ids(self, text):
        from parso.python.tokenize import tokenize
        ids = []
        for t in tokenize(text, version_info=parse_version_string(self.version)):
            ids.append(self.tid[self.label(t.type.name, t.string)])
        return ids

    def leaf_symbol(self, leaf):
        if leaf.type == 'error_leaf':
            lab = self.label(leaf.token_type, leaf.value)
            return ['E', lab[1]]
        tn = {'name': 'NAME', 'keyword': 'NAME', 'operator': 'OP', 'number': 'NUMBER', 'string': 'STRING',
              'newline': 'NEWLINE', 'endmarker': 'ENDMARKER', 'fstring_start': 'FSTRING_START',
              'fstring_string': 'FSTRING_STRING', 'fstring_end': 'FSTRING_END'}.get(leaf.type, leaf.type.upper())
        return list(self.label(tn, leaf.value))


def real_events(module, relabel):
    """post-order closing events of the real tree in ParserB's vocabulary (param nodes flattened)"""
    events = []

    def kids_of(node):
        out = []
        for c in node.children:
            if getattr(c, 'type', None) == 'param':
                out.extend(c.children)
            else:
                out.append(c)
        return out

    def sym(n):
        if not hasattr(n, 'children'):
            return relabel.leaf_symbol(n)
        return ['N', n.type]

    def visit(n):
        stack = [(n, False)]
        while stack:
            node, done = stack.pop()
            if not hasattr(node, 'children'):
                continue
            ks = kids_of(node)
            if done:
                events.append([node.type, [sym(k) for k in ks]])
            else:
                stack.append((node, True))
                for k in reversed(ks):
                    stack.append((k, False))
    visit(module)
    return events


def norm_events(out):
    """ParserB `out` -> the conventions of the tree classes: lambdef_nocond is merged into lambdef; when a
    funcdef / lambdef node is built its typedargslist / varargslist is dissolved into param nodes (flattened
    here) - but not inside an error node, where no Function/Lambda object is ever constructed."""
    stack = []      # closed, not yet consumed nodes: dict(name, kids) ; kids: symbol lists or node dicts
    for name, kids in out:
        name = 'lambdef' if name == 'lambdef_nocond' else name
        ks = [list(k) for k in kids]
        for k in ks:
            if k == ['N', 'lambdef_nocond']:
                k[1] = 'lambdef'
        n_int = sum(1 for k in ks if k[0] == 'N')
        sub = stack[len(stack) - n_int:] if n_int else []
        del stack[len(stack) - n_int:]
        it = iter(sub)
        node = {'name': name, 'kids': [next(it) if k[0] == 'N' else k for k in ks]}
        stack.append(node)

    def regroup(node):
        if node['name'] == 'funcdef':
            for k in node['kids']:
                if isinstance(k, dict) and k['name'] == 'parameters':
                    k['kids'] = splice(k['kids'], 'typedargslist')
        elif node['name'] == 'lambdef':
            node['kids'] = splice(node['kids'], 'varargslist')
        for k in node['kids']:
            if isinstance(k, dict):
                regroup(k)

    def splice(kids, what):
        res = []
        for k in kids:
            if isinstance(k, dict) and k['name'] == what:
                res.extend(k['kids'])
            else:
                res.append(k)
        return res

    events = []

    def emit(node):
        todo = [(node, False)]
        while todo:
            n, done = todo.pop()
            if done:
                events.append([n['name'], [['N', k['name']] if isinstance(k, dict) else k for k in n['kids']]])
            else:
                todo.append((n, True))
                for k in reversed(n['kids']):
                    if isinstance(k, dict):
                        todo.append((k, False))
    for root in stack:
        regroup(root)
        emit(root)
    return events


def behaviours(run_dir, version, env, mode='recover', num=300, depth=24, closeat=12, seed=0, errlevels=(),
               errbudget=0, workers=4, exhaustive_tokens=0, timeout=900, start='file_input', scripts=None):
    """Run TLC (simulation, or exhaustive search with history when exhaustive_tokens > 0) and return the
    complete behaviours it printed: dicts(toks, status, out, err, bad, errAt)."""
    info = export(run_dir, version, mode=mode, env=env, hist=True, maxtok=exhaustive_tokens or 99, closeat=closeat,
                  errlevels=errlevels, errbudget=errbudget, start=start, scripts=scripts)
    if scripts is not None:
        res = tlc.run(run_dir, 'ParserB', cfg(constraint=False), workers=workers, timeout=timeout, heap='12g')
    elif exhaustive_tokens:
        res = tlc.run(run_dir, 'ParserB', cfg(constraint=True), workers=workers, timeout=timeout, heap='12g')
    else:
        res = tlc.run(run_dir, 'ParserB', cfg(constraint=False), workers=workers, timeout=timeout,
                      simulate='num=%d' % max(1, num // workers), depth=depth, seed=seed, heap='6g')
    behs = []
    for b in res.printed('BEH'):
        behs.append({'mode': b[1], 'toks': b[2], 'status': b[3], 'out': b[4], 'err': b[5], 'bad': b[6],
                     'errAt': b[7]})
    return info, behs, res



# --------------------------------------------------------------------------------------------
# arc cover: sentences that together use every arc of every DFA reachable from the start rule
# --------------------------------------------------------------------------------------------
def arc_cover(rec, start='file_input', two_level=False):
    """rec: exported grammar record (rules with dfa arcs).  Returns (sentences, n_arcs): each sentence is a list of
    [kind, value] token labels ending in ENDMARKER where the start rule consumes it."""
    rules = {r['name']: r['dfa'] for r in rec['rules']}
    INF = 10 ** 9

    def is_nt(lab):
        return lab[0] == 'N'
    # 1. shortest sentence per rule (fixpoint)
    best = {n: None for n in rules}

    def shortest_from(name, k0, want_final=True, target=None):
        """Dijkstra inside one DFA: shortest token sequence from state k0 to a final state (or to `target`)"""
        import heapq
        dfa = rules[name]
        dist = {k0: (0, [])}
        heap = [(0, k0)]
        while heap:
            d, k = heapq.heappop(heap)
            if d > dist[k][0]:
                continue
            if (target is None and dfa[k - 1]['final']) or (target is not None and k == target):
                return dist[k][1]
            for lab, tgt in dfa[k - 1]['arcs']:
                if is_nt(lab):
                    sub = best.get(lab[2])
                    if sub is None:
                        continue
                    seq = sub
                else:
                    seq = [[lab[0], lab[2]]]
                nd = d + len(seq)
                if tgt not in dist or nd < dist[tgt][0]:
                    dist[tgt] = (nd, dist[k][1] + seq)
                    heapq.heappush(heap, (nd, tgt))
        return None
    changed = True
    while changed:
        changed = False
        for n in rules:
            s = shortest_from(n, 1)
            if s is not None and (best[n] is None or len(s) < len(best[n])):
                best[n] = s
                changed = True
    # 2. shortest context of every rule inside the start rule
    ctx = {start: ([], [])}
    todo = [start]
    while todo:
        p = todo.pop(0)
        pre_p, suf_p = ctx[p]
        dfa = rules[p]
        for k, st in enumerate(dfa, 1):
            head = shortest_from(p, 1, target=k)
            if head is None:
                continue
            for lab, tgt in st['arcs']:
                if not is_nt(lab) or lab[2] not in rules:
                    continue
                tail = shortest_from(p, tgt)
                if tail is None:
                    continue
                cand = (pre_p + head, tail + suf_p)
                old = ctx.get(lab[2])
                if old is None or len(cand[0]) + len(cand[1]) < len(old[0]) + len(old[1]):
                    ctx[lab[2]] = cand
                    todo.append(lab[2])
    # 3. one sentence per arc
    sentences = []
    seen = set()
    n_arcs = 0
    for n, (pre, suf) in ctx.items():
        dfa = rules[n]
        for k, st in enumerate(dfa, 1):
            head = shortest_from(n, 1, target=k)
            if head is None:
                continue
            for lab, tgt in st['arcs']:
                n_arcs += 1
                mid = best.get(lab[2]) if is_nt(lab) else [[lab[0], lab[2]]]
                tail = shortest_from(n, tgt)
                if mid is None or tail is None:
                    continue
                sent = pre + head + mid + tail + suf
                key = json.dumps(sent)
                if key not in seen:
                    seen.add(key)
                    sentences.append(sent)
    if not two_level:
        return sentences, n_arcs
    # 4. two-level cover: every arc of a rule in the context of EVERY place the rule is used (not only the shortest)
    for p, (pre_p, suf_p) in ctx.items():
        dfa = rules[p]
        for k, st in enumerate(dfa, 1):
            head_p = shortest_from(p, 1, target=k)
            if head_p is None:
                continue
            for lab, tgt in st['arcs']:
                if not is_nt(lab) or lab[2] not in rules:
                    continue
                tail_p = shortest_from(p, tgt)
                if tail_p is None:
                    continue
                child = lab[2]
                for ck, cst in enumerate(rules[child], 1):
                    chead = shortest_from(child, 1, target=ck)
                    if chead is None:
                        continue
                    for clab, ctgt in cst['arcs']:
                        mid = best.get(clab[2]) if is_nt(clab) else [[clab[0], clab[2]]]
                        ctail = shortest_from(child, ctgt)
                        if mid is None or ctail is None:
                            continue
                        sent = pre_p + head_p + chead + mid + ctail + tail_p + suf_p
                        key = json.dumps(sent)
                        if key not in seen:
                            seen.add(key)
                            sentences.append(sent)
    return sentences, n_arcs
