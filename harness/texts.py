"""The standard text set shared by the tree-level checks (C01, C02, C03, C05, C07, C11, C13, C19, C20).

Sources (DESIGN 1.4): model-generated (TLC: Strings over three alphabets; ParserB behaviours when a
generator is passed in), corpus chunks, token-level mutations.  Items are [id, text, version, origin]."""
from . import inputs
from .common import VERSIONS


def standard_items(tier, rng, scratch, out, budget, extra_generators=()):
    """budget: approximate number of items wanted (the exhaustive part is sampled down to fit)."""
    strs, res = inputs.tlc_strings(scratch.sub('strings'), 3)
    fstr, res2 = inputs.tlc_strings(scratch.sub('fstrings'), 4, inputs.FSTR_ALPHABET)
    ind, res3 = inputs.tlc_strings(scratch.sub('indstrings'), 4 if tier == 'quick' else 5, inputs.INDENT_ALPHABET)
    shapes, res4 = inputs.indent_shapes(scratch.sub('shapes'), max_lines=5 if tier == 'quick' else 6)
    out.add('states', res.distinct + res2.distinct + res3.distinct + res4.distinct)
    out.add('transitions', res.generated + res2.generated + res3.generated + res4.generated)
    out.cov(strings_enumerated=len(strs), fstring_strings=len(fstr), indent_strings=len(ind), indent_shapes=len(shapes))
    items = []
    nid = [0]

    def add(text, ver, origin):
        nid[0] += 1
        items.append([nid[0], text, ver, origin])

    share = max(1000, budget // 9)
    starts = ['f"', "f'", 'f"""', "rf'"]
    for i, s in enumerate(_take(strs, share, rng)):
        add(s, VERSIONS[i % 9], 'strings')
    for i, s in enumerate(_take(fstr, share, rng)):
        add(starts[i % 4] + s, VERSIONS[i % 9], 'fstrings')
    for i, s in enumerate(_take(ind, share, rng)):
        add(('if a:\n  b\n' if i % 2 else '') + s, VERSIONS[i % 9], 'indstrings')
    for i, s in enumerate(_take(shapes, share, rng)):
        add(s, VERSIONS[i % 9], 'indent-shapes')
    for i in range(share):
        k = rng.randint(5, 14)
        s = ''.join(rng.choice(inputs.ALPHABET)[0] for _ in range(k))
        add(inputs.vary(s, rng), rng.choice(VERSIONS), 'class-walk')
    for s in inputs.pool_strings(share, rng, maxlen=20):
        add(s, rng.choice(VERSIONS), 'pool')
    lits, res5 = inputs.string_literals(scratch.sub('lits'), 3)
    out.add('states', res5.distinct)
    out.add('transitions', res5.generated)
    out.cov(string_literal_shapes=len(lits))
    for i, t in enumerate(_take(lits, share, rng)):
        add(t, VERSIONS[i % 9], 'string-literals')
    for i, t in enumerate(inputs.escape_literals()):
        add(t, VERSIONS[i % 9], 'escape-literals')
    for i, t in enumerate(inputs.backslash_splits()):
        add(t, VERSIONS[i % 9], 'backslash-splits')
    for i, lines in enumerate(inputs.fstringb_lines(rng, 2500 if tier == 'quick' else 25000)):
        add(inputs.fstringb_text(lines, final_newline=bool(i % 3)), VERSIONS[i % 9], 'fstringb-lines')
    # grammar sentences: one shortest sentence through every arc of every DFA (all versions), two spellings
    from . import parserb, pgen_export
    arcs = []
    for v in VERSIONS:
        rec, _ = pgen_export.grammar_record(pgen_export.grammar_text(v))
        sents, n_arcs = parserb.arc_cover(rec, two_level=True)
        for sent in sents:
            t1 = parserb.render(sent)
            if t1 is not None:
                arcs.append((t1, v))
                t2 = parserb.render(sent, rng=rng, vary=True, newline='\r\n')
                if t2 and t2 != t1:
                    arcs.append((t2, v))
    out.cov(grammar_arc_sentences=len(arcs))
    for t, v in _take(arcs, max(share, 8000), rng):      # normally all of them
        add(t, v, 'grammar-arcs')
    for gen in extra_generators:
        for text, ver, origin in gen(share):
            add(text, ver, origin)
    # corpus chunks and mutations
    nfiles = max(6, share // 60)
    vs = VERSIONS if tier == 'thorough' else [rng.choice(VERSIONS[:4]), rng.choice(VERSIONS[4:])]
    per_v = max(3, nfiles // len(vs))
    for v in vs:
        sv = v if v in inputs.STDLIB else '3.12'
        for c in inputs.corpus_chunks(sv, per_v, rng, max_chars=1200, per_file=10):
            add(c, v, 'corpus')
            m = c
            for _ in range(rng.randint(1, 3)):
                m = inputs.mutate(m, rng)
            add(m, v, 'corpus-mutated')
    return items


def _take(seq, n, rng):
    if len(seq) <= n:
        return list(seq)
    return rng.sample(seq, n)
