"""C14: fact sets extracted from parso's semantic helpers and from CPython's ast for the same program.

Both sides produce {kind: sorted list of JSON strings}.  Recorders log values only: the comparison (set equality
per kind) is made by TLC (spec Relational.FactsVerdict)."""
import ast
import io
import json
import tokenize

from .common import import_parso
from . import record

parso = import_parso()

KINDS = ['definition', 'scope_children', 'params', 'returns_annotation', 'generator', 'returns', 'raises', 'imports',
         'docstring']


# ------------------------------------------------------------------------------------------------
# parso side
# ------------------------------------------------------------------------------------------------
def parso_facts(module):
    f = {k: [] for k in KINDS}
    nodes = record.walk(module)

    def scope_key(s):
        return [s.type if s.type != 'file_input' else 'module', s.start_pos[0], s.start_pos[1]] \
            if s.type != 'file_input' else ['module', 0, 0]

    for n in nodes:
        t = n.type
        if t == 'name':
            if n.is_definition():
                f['definition'].append([n.start_pos[0], n.start_pos[1], n.value])
        if t in ('file_input', 'funcdef', 'classdef', 'lambdef'):
            if t != 'lambdef':
                kids = []
                for fn in n.iter_funcdefs():
                    kids.append(['func', fn.name.value, fn.name.start_pos[0], fn.name.start_pos[1]])
                for c in n.iter_classdefs():
                    kids.append(['class', c.name.value, c.name.start_pos[0], c.name.start_pos[1]])
                for imp in n.iter_imports():
                    kids.append(['import', imp.start_pos[0], imp.start_pos[1]])
                f['scope_children'].append([scope_key(n), sorted(kids, key=json.dumps)])
                doc = n.get_doc_node()
                f['docstring'].append([scope_key(n), list(doc.start_pos) if doc is not None else None])
        if t in ('funcdef', 'lambdef'):
            ps = []
            for p in n.get_params():
                ps.append([p.name.value, p.star_count, p.default is not None, p.annotation is not None])
            f['params'].append([n.start_pos[0], n.start_pos[1], ps])
            if t == 'funcdef':
                f['returns_annotation'].append([n.start_pos[0], n.start_pos[1], n.annotation is not None])
                f['generator'].append([n.start_pos[0], n.start_pos[1], bool(n.is_generator())])
                f['returns'].append([n.start_pos[0], n.start_pos[1],
                                     sorted(list(r.start_pos) for r in n.iter_return_stmts())])
                f['raises'].append([n.start_pos[0], n.start_pos[1],
                                    sorted(list(r.start_pos) for r in n.iter_raise_stmts())])
        if t in ('import_name', 'import_from'):
            paths = [[x.value for x in p] for p in n.get_paths()]
            names = [[x.value, x.start_pos[0], x.start_pos[1]] for x in n.get_defined_names()]
            star = n.is_star_import() if t == 'import_from' else False
            f['imports'].append([n.start_pos[0], n.start_pos[1], n.level, star, sorted(paths), sorted(names)])
    return {k: sorted(json.dumps(x) for x in v) for k, v in f.items()}


# ------------------------------------------------------------------------------------------------
# CPython side
# ------------------------------------------------------------------------------------------------
class _Tok:
    def __init__(self, text):
        self.toks = [t for t in tokenize.generate_tokens(io.StringIO(text).readline)]
        self.names = [(t.start, t.string) for t in self.toks if t.type == tokenize.NAME]
        self.ops = [(t.start, t.string) for t in self.toks if t.type == tokenize.OP]

    def names_between(self, start, end):
        return [(p, s) for p, s in self.names if start <= p < end]

    def first_name_after(self, pos, skip=()):
        for p, s in self.names:
            if p >= pos and s not in skip:
                return p, s
        return None


def ast_facts(text):
    tree = ast.parse(text)
    tk = _Tok(text)
    f = {k: [] for k in KINDS}

    def pos(n):
        return (n.lineno, n.col_offset)

    def endpos(n):
        return (n.end_lineno, n.end_col_offset)

    def col(n):
        # ast columns are UTF-8 byte offsets; parso's are code points
        line = text.splitlines()[n.lineno - 1] if n.lineno - 1 < len(text.splitlines()) else ''
        return len(line.encode('utf-8')[:n.col_offset].decode('utf-8', 'replace'))

    lines = text.split('\n')

    def c2(lineno, byte_col):
        line = _line(lineno)
        return len(line.encode('utf-8')[:byte_col].decode('utf-8', 'replace'))

    def _line(lineno):
        ls = text.splitlines()
        return ls[lineno - 1] if 0 < lineno <= len(ls) else ''

    def P(lineno, byte_col):
        return (lineno, c2(lineno, byte_col))

    def add_def(line, column, name):
        f['definition'].append([line, column, name])

    def scope_key(n):
        if isinstance(n, ast.Module):
            return ['module', 0, 0]
        kind = 'classdef' if isinstance(n, ast.ClassDef) else 'funcdef'
        # parso's funcdef/classdef node starts at the `def` / `class` keyword (decorators and `async` are outside)
        kwpos = keyword_pos(n)
        return [kind, kwpos[0], kwpos[1]]

    def keyword_pos(n):
        start = P(n.lineno, n.col_offset)
        want = 'class' if isinstance(n, ast.ClassDef) else 'def'
        for p, s in tk.names:
            if p >= start and s == want:
                return p
        return start

    def name_pos(n):
        kp = keyword_pos(n)
        r = tk.first_name_after((kp[0], kp[1] + 1))
        return r[0] if r else kp

    def direct(scope_body, types):
        """nodes of the given types directly in this scope (not inside nested function/class scopes)"""
        out = []
        todo = list(scope_body)
        while todo:
            n = todo.pop()
            if isinstance(n, types):
                out.append(n)
            if isinstance(n, (ast.FunctionDef, ast.AsyncFunctionDef, ast.ClassDef, ast.Lambda)):
                continue
            todo.extend(ast.iter_child_nodes(n))
        return out

    def flow_children(body):
        """statements reachable through flow containers only (suite / if / while / for / try / with / async), the way
        parso's scope iteration works"""
        out = []
        todo = list(body)
        while todo:
            n = todo.pop()
            out.append(n)
            if isinstance(n, (ast.If, ast.While, ast.For, ast.AsyncFor, ast.Try, ast.With, ast.AsyncWith) +
                          ((ast.TryStar,) if hasattr(ast, 'TryStar') else ())):
                for field in ('body', 'orelse', 'finalbody'):
                    todo.extend(getattr(n, field, []) or [])
                for h in getattr(n, 'handlers', []) or []:
                    todo.extend(h.body)
        return out

    def docstring_of(body):
        if body and isinstance(body[0], ast.Expr) and isinstance(body[0].value, ast.Constant) \
                and isinstance(body[0].value.value, str):
            v = body[0].value
            return v
        return None

    def single_literal(v):
        """one plain string literal: exactly one STRING token spans the node and it is not parenthesised"""
        start, end = P(v.lineno, v.col_offset), P(v.end_lineno, v.end_col_offset)
        toks = [t for t in tk.toks if t.type == tokenize.STRING and start <= t.start < end]
        fparts = [t for t in tk.toks if tokenize.tok_name[t.type].startswith('FSTRING') and start <= t.start < end]
        return len(toks) == 1 and not fparts and toks[0].start == start and toks[0].end == end

    for n in ast.walk(tree):
        if isinstance(n, ast.Name) and isinstance(n.ctx, (ast.Store, ast.Del)):
            add_def(n.lineno, c2(n.lineno, n.col_offset), n.id)
        elif isinstance(n, ast.Attribute) and isinstance(n.ctx, (ast.Store, ast.Del)):
            e = P(n.end_lineno, n.end_col_offset)
            add_def(e[0], e[1] - len(n.attr), n.attr)
        elif isinstance(n, ast.arg):
            add_def(n.lineno, c2(n.lineno, n.col_offset), n.arg)
        elif isinstance(n, (ast.FunctionDef, ast.AsyncFunctionDef, ast.ClassDef)):
            p = name_pos(n)
            add_def(p[0], p[1], n.name)
        elif isinstance(n, ast.alias):
            if n.name == '*':
                continue
            span = tk.names_between(P(n.lineno, n.col_offset), P(n.end_lineno, n.end_col_offset))
            if n.asname:
                p = [x for x in span if x[1] == n.asname][-1][0]
                add_def(p[0], p[1], n.asname)
            elif span:
                # `import a.b.c` binds a; `from m import x` binds x
                add_def(span[0][0][0], span[0][0][1], span[0][1])
        elif isinstance(n, ast.ExceptHandler) and n.name:
            start = P(n.type.end_lineno, n.type.end_col_offset) if n.type is not None else P(n.lineno, n.col_offset)
            r = tk.first_name_after(start, skip=('as',))
            if r:
                add_def(r[0][0], r[0][1], n.name)

    scopes = [tree] + [n for n in ast.walk(tree) if isinstance(n, (ast.FunctionDef, ast.AsyncFunctionDef, ast.ClassDef))]
    for s in scopes:
        kids = []
        for n in flow_children(s.body):
            if isinstance(n, (ast.FunctionDef, ast.AsyncFunctionDef)):
                p = name_pos(n)
                kids.append(['func', n.name, p[0], p[1]])
            elif isinstance(n, ast.ClassDef):
                p = name_pos(n)
                kids.append(['class', n.name, p[0], p[1]])
            elif isinstance(n, (ast.Import, ast.ImportFrom)):
                p = P(n.lineno, n.col_offset)
                kids.append(['import', p[0], p[1]])
        f['scope_children'].append([scope_key(s), sorted(kids, key=json.dumps)])
        d = docstring_of(s.body)
        if d is not None and not single_literal(d):
            d = 'outside-claim'
        if d != 'outside-claim':
            f['docstring'].append([scope_key(s), list(P(d.lineno, d.col_offset)) if d is not None else None])
        else:
            f['docstring'].append([scope_key(s), 'outside-claim'])

    def params_of(a):
        ps = []
        po = list(getattr(a, 'posonlyargs', [])) + list(a.args)
        nd = len(a.defaults)
        for i, x in enumerate(po):
            ps.append([x.arg, 0, i >= len(po) - nd, x.annotation is not None])
        if a.vararg:
            ps.append([a.vararg.arg, 1, False, a.vararg.annotation is not None])
        for x, dflt in zip(a.kwonlyargs, a.kw_defaults):
            ps.append([x.arg, 0, dflt is not None, x.annotation is not None])
        if a.kwarg:
            ps.append([a.kwarg.arg, 2, False, a.kwarg.annotation is not None])
        return ps

    for n in ast.walk(tree):
        if isinstance(n, (ast.FunctionDef, ast.AsyncFunctionDef)):
            kp = keyword_pos(n)
            f['params'].append([kp[0], kp[1], params_of(n.args)])
            f['returns_annotation'].append([kp[0], kp[1], n.returns is not None])
            ys = direct(n.body, (ast.Yield, ast.YieldFrom))
            f['generator'].append([kp[0], kp[1], bool(ys)])
            f['returns'].append([kp[0], kp[1], sorted(list(P(r.lineno, r.col_offset)) for r in
                                                      flow_only(n.body, ast.Return, flow_children))])
            f['raises'].append([kp[0], kp[1], sorted(list(P(r.lineno, r.col_offset)) for r in
                                                     flow_only(n.body, ast.Raise, flow_children))])
        elif isinstance(n, ast.Lambda):
            p = P(n.lineno, n.col_offset)
            f['params'].append([p[0], p[1], params_of(n.args)])
        elif isinstance(n, ast.Import):
            p = P(n.lineno, n.col_offset)
            paths = [a.name.split('.') if not a.asname else a.name.split('.') for a in n.names]
            names = []
            for a in n.names:
                span = tk.names_between(P(a.lineno, a.col_offset), P(a.end_lineno, a.end_col_offset))
                if a.asname:
                    q = [x for x in span if x[1] == a.asname][-1][0]
                    names.append([a.asname, q[0], q[1]])
                else:
                    names.append([span[0][1], span[0][0][0], span[0][0][1]])
            f['imports'].append([p[0], p[1], 0, False, sorted(paths), sorted(names)])
        elif isinstance(n, ast.ImportFrom):
            p = P(n.lineno, n.col_offset)
            base = n.module.split('.') if n.module else []
            star = any(a.name == '*' for a in n.names)
            paths = [base] if star else [base + [a.name] for a in n.names]
            names = []
            for a in n.names:
                if a.name == '*':
                    continue
                span = tk.names_between(P(a.lineno, a.col_offset), P(a.end_lineno, a.end_col_offset))
                want = a.asname or a.name
                q = [x for x in span if x[1] == want][-1][0]
                names.append([want, q[0], q[1]])
            f['imports'].append([p[0], p[1], n.level, star, sorted(paths), sorted(names)])
    return {k: sorted(json.dumps(x) for x in v) for k, v in f.items()}


def flow_only(body, typ, flow_children):
    return [n for n in flow_children(body) if isinstance(n, typ)]
