"""Input texts: TLC-enumerated class strings, token-pool strings, corpus chunks, mutations."""
import glob
import os
import random
import re

from . import tlc
from .common import REPO

# One representative per character class (DESIGN A.1); alternatives are substituted by `vary`.
ALPHABET = [
    ('a', 'bxN'), ('1', '097'), ('.', '.'), ('_', '_'), (' ', ' '), ('\t', '\t'), ('\f', '\f'),
    ('\n', '\n'), ('\r', '\r'), ('\\', '\\'), ('#', '#'), ("'", "'"), ('"', '"'), ('(', '[('),
    (')', '])'), ('{', '{'), ('}', '}'), (':', ':;,'), ('=', '=+-*<>!@%&|^~/'), ('f', 'frbuFRB'),
    ('$', '$?`'), ('\ufeff', '\ufeff'), ('\u2028', '\u2028\x0b\x1c\x1d\x1e\x85\xa0\u2029'),
    ('\xe9', '\xe9\u03b1\u4e2d'), ('\u20ac', '\u20ac\xb2\u2603'), ('e', 'ejEJxXoObB'),
]


# Sub-alphabets for deeper exhaustive enumeration of the two stateful parts of the tokenizer.
FSTR_ALPHABET = ['a', ' ', '{', '}', ':', '!', "'", '"', '\n', '\\', '(', ')', '\u2028', 'f', '#', '=', '"""', "'''",
                 '\\\n', '\t']
NUM_ALPHABET = ['1', '0', '_', '.', 'e', '+', '-', 'j', 'x', 'b', 'o', 'f', '9', 'E']
STRLIT_ALPHABET = ['r', 'b', 'u', 'f', 'R', 'B', "'", '"', 'a', '\\', '{', '}', ' ']
INDENT_ALPHABET = ['a', ' ', '\t', '\n', '\r', '\\', '#', '(', ')', ':', '\f', 'del']
# layout of VALID programs (relations to CPython): names, brackets, line ends, comments, continuation, indentation
LAYOUT_ALPHABET = ['a', '(', ')', '\n', '#c', '\\\n', ' ', '    ', 'if a:', ',', ';', ':', '=']


def tlc_strings(run_dir, n, alphabet=None, workers=4):
    """Enumerate all strings of length <= n with TLC (spec Strings) and return them with TLC's counts."""
    alpha = alphabet or [a for a, _ in ALPHABET]
    k = len(alpha)
    tlc.prepare(run_dir, ['Strings'])
    cfg = 'SPECIFICATION Spec\nCONSTANTS K = %d\n N = %d\n' % (k, n)
    res = tlc.run(run_dir, 'Strings', cfg, workers=workers, dump='strings', timeout=900)
    path = os.path.join(run_dir, 'strings.dump')
    out = []
    with open(path) as f:
        for line in f:
            if line.startswith('s = '):
                ids = [int(x) for x in re.findall(r'\d+', line)]
                out.append(''.join(alpha[i - 1] for i in ids))
    os.remove(path)
    assert len(out) == res.distinct, (len(out), res.distinct)
    out.sort()
    return out, res


def vary(text, rng):
    """Replace each class representative by another member of its class."""
    m = {a: alts for a, alts in ALPHABET}
    return ''.join(rng.choice(m[c]) if c in m else c for c in text)


POOL = ['def ', 'x', 'y', '(', ')', ':', '\n', '    ', '  ', 'if ', 'else', 'elif ', '=', '1', ',', '[', ']',
        'class ', 'return ', '"s"', "f'{", "}'", '\\\n', '#c', 'lambda ', '*', '.', 'try', '\r\n', '\t',
        'for ', ' in ', 'while ', 'with ', ' as ', 'import ', 'from ', 'async ', 'await ', 'yield ',
        'del ', 'pass', 'break', 'not ', '**', '->', ':=', '@', '{', '}', '"""', "'", '"', 'f"', "f'''",
        '!r', ';', '\r', '\f', ' ', '0x1', '1.5e3', '\xe9', '$', '?', '\ufeff', 'except', 'finally', 'None',
        'global ', 'nonlocal ', 'assert ', 'raise ', 'print', '...', '\\', '       ', 'b"x"', "rb'", '1_0',
        'match ', 'case ', '%', '//', '<<=', '~', '!=', 'is ', 'and ', 'or ', 'continue',
        '#', '# ', '#   ', ' ' * 19, ' ' * 41, 'value = compute()  ', '# http://example.com/' + 'a' * 70, '\n#\n', 'x  # ']


def pool_strings(n, rng, maxlen=16):
    return [''.join(rng.choice(POOL) for _ in range(rng.randint(0, maxlen))) for _ in range(n)]


ADVERSARIAL = ['\r', '\r\n', '\f', '\x0b', '\x1c', '\x1d', '\x1e', '\x85', '\xa0', '\u2028', '\u2029',
               '\ufeff', '\\', "'", '"', '"""', "'''", '{', '}', '\xe9', '$', '\t', '    ', '\n', '(', ')',
               ':', 'f"', '#', ' ', 'def', 'class', ';', '\\\n']
_TOKSPLIT = re.compile(r'\s+|\w+|[^\w\s]')


def mutate(text, rng):
    """One token-level mutation: delete / duplicate / swap a token, change indentation, inject a character."""
    toks = _TOKSPLIT.findall(text) or ['']
    k = rng.randrange(6)
    i = rng.randrange(len(toks))
    if k == 0:
        del toks[i]
    elif k == 1:
        toks.insert(i, toks[i])
    elif k == 2 and len(toks) > 1:
        j = rng.randrange(len(toks))
        toks[i], toks[j] = toks[j], toks[i]
    elif k == 3:
        lines = text.split('\n')
        j = rng.randrange(len(lines))
        lines[j] = rng.choice([' ', '  ', '    ', '\t', '']) + lines[j].lstrip(' ') if rng.random() < 0.5 \
            else lines[j][1:]
        return '\n'.join(lines)
    else:
        toks.insert(i, rng.choice(ADVERSARIAL))
    return ''.join(toks)


def _stdlib_dirs():
    base = '/root/.pyenv/versions'
    out = {}
    if os.path.isdir(base):
        for v in sorted(os.listdir(base)):
            m = re.match(r'(\d+)\.(\d+)\.', v)
            if m and m.group(1) == '3':
                d = os.path.join(base, v, 'lib', 'python%s.%s' % (m.group(1), m.group(2)))
                if os.path.isdir(d):
                    out['%s.%s' % (m.group(1), m.group(2))] = d
    return out


STDLIB = _stdlib_dirs()


def corpus_files(version=None, limit=None, rng=None, include_repo=True):
    files = []
    if version and version in STDLIB:
        d = STDLIB[version]
        files += sorted(glob.glob(os.path.join(d, '*.py')))
        for sub in ('json', 'email', 'asyncio', 'collections', 'importlib', 'unittest', 'xml/dom', 'logging',
                    'concurrent/futures', 'http', 'urllib', 'encodings', 'ctypes', 'multiprocessing'):
            files += sorted(glob.glob(os.path.join(d, sub, '*.py')))
    if include_repo:
        files += sorted(glob.glob(os.path.join(REPO, 'parso', '**', '*.py'), recursive=True))
        files += sorted(glob.glob(os.path.join(REPO, 'test', '**', '*.py'), recursive=True))
    if rng is not None:
        rng.shuffle(files)
    if limit:
        files = files[:limit]
    return files


def read_text(path):
    with open(path, 'rb') as f:
        b = f.read()
    try:
        return b.decode('utf-8')
    except UnicodeDecodeError:
        return b.decode('latin-1')


def chunk_statements(text, max_chars=1500):
    """Split a file into runs of top-level statements (<= max_chars where possible)."""
    lines = text.splitlines(keepends=True)
    starts = [i for i, l in enumerate(lines) if l[:1] not in (' ', '\t', '\n', '\r', '#', ')', ']', '}', '')
              and not l.startswith(('else', 'elif', 'except', 'finally', '"""', "'''"))]
    if not starts or starts[0] != 0:
        starts = [0] + starts
    out = []
    cur = ''
    for a, b in zip(starts, starts[1:] + [len(lines)]):
        piece = ''.join(lines[a:b])
        if cur and len(cur) + len(piece) > max_chars:
            out.append(cur)
            cur = ''
        cur += piece
    if cur:
        out.append(cur)
    return out


def corpus_chunks(version, nfiles, rng, max_chars=1500, per_file=None):
    out = []
    for p in corpus_files(version, nfiles, rng):
        try:
            ch = chunk_statements(read_text(p), max_chars)
        except OSError:
            continue
        if per_file and len(ch) > per_file:
            ch = rng.sample(ch, per_file)
        out += [c for c in ch if len(c) <= 4 * max_chars]
    return out


# ---- indentation shapes (spec IndentShapes) -------------------------------------------------------
SKELETONS = [
    ['if x:', 'a = 1', 'elif y:', 'b = 2', 'else:', 'c = 3'],
    ['try:', 'a', 'except E:', 'pass', 'finally:', 'b'],
    ['try:', 'a', 'except E as e:', 'b', 'else:', 'c'],
    ['for i in y:', 'a', 'else:', 'b'],
    ['while x:', 'a', 'break', 'else:', 'b'],
    ['with a as b:', 'c', 'd'],
    ['def f(p):', '"doc"', 'return p', 'x = 1'],
    ['class C:', 'x = 1', 'def m(self):', 'pass', 'y = 2'],
    ['@dec', '@dec2(1)', 'def f():', 'pass'],
    ['@dec', 'class C:', 'pass', 'z'],
    ['async def f():', 'await q', 'async with a:', 'pass'],
    ['x = [', '1,', ']', 'y'],
    ['if x:', 'pass', 'y', 'else:', 'z'],
    ['def f():', 'if x:', 'return', 'return 1'],
    ['try:', 'pass', 'except:', 'pass', 'except E:', 'raise'],
]


def indent_shapes(run_dir, cols=(0, 1, 2, 4, 6, 8), bases=(0, 4), max_lines=5):
    """-> list of texts: every indentation assignment of every skeleton (first max_lines lines)"""
    from . import tlc as _tlc
    import re as _re
    sk = [s[:max_lines] for s in SKELETONS]
    _tlc.prepare(run_dir, ['IndentShapes'])
    lens = ' @@ '.join('(%d :> %d)' % (i + 1, len(s)) for i, s in enumerate(sk))
    with open(os.path.join(run_dir, 'IndentShapes.tla')) as f:
        src = f.read()
    src = src.replace('=====', 'MCLen == %s\n=====' % lens, 1)
    with open(os.path.join(run_dir, 'IndentShapes.tla'), 'w') as f:
        f.write(src)
    cfg = ('SPECIFICATION Spec\nCONSTANTS\n NSkel = %d\n SkelLen <- MCLen\n Cols = {%s}\n Bases = {%s}\n' %
           (len(sk), ', '.join(map(str, cols)), ', '.join(map(str, bases))))
    res = _tlc.run(run_dir, 'IndentShapes', cfg, workers=4, dump='shapes', timeout=600)
    out = []
    txt = open(os.path.join(run_dir, 'shapes.dump')).read()
    for block in _re.split(r'\nState \d+:\n', '\n' + txt)[1:]:
        mk = _re.search(r'/\\ k = (\d+)', block)
        mi = _re.search(r'/\\ ind = <<(.*)>>', block)
        if not mk or not mi:
            continue
        k = int(mk.group(1))
        ind = [int(x) for x in _re.findall(r'\d+', mi.group(1))]
        if len(ind) != len(sk[k - 1]):
            continue
        out.append(''.join(' ' * c + line + '\n' for c, line in zip(ind, sk[k - 1])))
    os.remove(os.path.join(run_dir, 'shapes.dump'))
    return out, res


# ---- string-literal shapes (spec StrLits) -----------------------------------------------------------
def string_literals(run_dir, max_body=3):
    """-> list of `x = <literal>` programs for every state of StrLits"""
    from . import tlc as _tlc
    import re as _re
    _tlc.prepare(run_dir, ['StrLits'])
    res = _tlc.run(run_dir, 'StrLits', 'SPECIFICATION Spec\nCONSTANTS MaxBody = %d\n' % max_body, workers=4,
                   dump='lits', timeout=600)
    Q = {'sq': "'", 'dq': '"', 'tsq': "'''", 'tdq': '"""'}
    out = []
    txt = open(os.path.join(run_dir, 'lits.dump')).read()
    for block in _re.split(r'\nState \d+:\n', '\n' + txt)[1:]:
        st = {m.group(1): _tlc.parse_value(m.group(2).strip()) for m in _re.finditer(r'/\\ (\w+) = (.*)', block)}
        if len(st) != 4:
            continue
        q = Q[st['quote']]
        other = '"' if q[0] == "'" else "'"
        piece = {'char': 'a', 'other': other, 'escown': '\\' + q[0], 'contin': '\\\n', 'newline': '\n',
                 'braces': '{x}', 'ownown': q[0] * 2 if len(q) == 3 else 'z', 'space': ' ', 'backslash': '\\\\'}
        lit = st['prefix'] + q + ''.join(piece[p] for p in st['body']) + (q if st['closed'] else '')
        out.append('x = %s\n' % lit)
        if st['closed']:
            out.append('y = [%s, 1]\nz = 2\n' % lit)
    os.remove(os.path.join(run_dir, 'lits.dump'))
    return sorted(set(out)), res


# every string prefix x every escape form (well-formed and malformed): the string checks of the error finder branch
# on the prefix letters and on the kind of escape
def escape_literals():
    out = []
    prefixes = ['', 'r', 'R', 'b', 'B', 'u', 'U', 'rb', 'Rb', 'rB', 'RB', 'br', 'bR', 'Br', 'BR', 'f', 'F', 'fr', 'Rf']
    escapes = ['\\x', '\\x4', '\\x41', '\\u12', '\\u1234', '\\U0001', '\\U0001F600', '\\N{foo}', '\\N{DASH}',
               '\\N', '\\8', '\\777', '\\d', '\\', 'C:\\Users\\x']
    for p in prefixes:
        for e in escapes:
            for q in ("'", '"'):
                out.append('x = %s%s%s%s\n' % (p, q, e, q))
    return out


# lexemes of spec FStringB (specs/FStringB.tla) and their rendering
FSTRINGB_LEX = {'F': 'f', 'QS': "'", 'QD': '"', 'X': 't', 'T': 'a', 'LB': '{', 'RB': '}', 'CO': ':', 'BA': '!', 'O': '(',
                'C': ')', 'W': ' '}


def fstringb_valid(ls):
    for a, b in zip(ls, ls[1:]):
        if a in 'FXT' and b in 'FXT':
            return False
    for a, b, c in zip(ls, ls[1:], ls[2:]):
        if a in ('QS', 'QD') and a == b == c:
            return False
    return True


def fstringb_lines(rng, n, maxlen=10):
    """n random 1-3 line texts over the FStringB lexemes (most lines start an f-string): nested and unterminated
    f-strings of both quote kinds, braces, format specs - deeper than the exhaustive f-string enumeration reaches"""
    L = sorted(FSTRINGB_LEX)
    out = []
    while len(out) < n:
        lines = []
        for _ in range(rng.choice([1, 1, 2, 3])):
            ln = [rng.choice(L) for _ in range(rng.randrange(0, maxlen))]
            if rng.random() < .7:
                ln = ['F', rng.choice(['QS', 'QD'])] + ln
            lines.append(ln)
        if all(fstringb_valid(ln) for ln in lines):
            out.append(lines)
    return out


def fstringb_text(lines, final_newline=True):
    t = '\n'.join(''.join(FSTRINGB_LEX[x] for x in ln) for ln in lines)
    return t + ('\n' if final_newline else '')


SPLIT_STATEMENTS = [
    'x: int', 'x: int = 1', 'self.value: int', 'x = 1 + 2', 'x += 1', 'f(a, b=1)', 'return x', 'import os', 'from a import b',
    'assert x, y', 'del x, y', 'raise E from e', 'x = a if b else c', 'lambda a: a', 'x = [1, 2]', 'x = {1: 2}', 'not x',
    'a.b.c = 1', 'x = y = 1', 'with a as b: pass', 'for i in x: pass', 'if a: pass', 'while a: pass', 'def f(a: int) -> int: pass',
    'class C(B): pass', 'global a', 'x = yield', 'await x', 'print(f"{a}")', 'x = a[1:2]', '@dec\ndef f(): pass',
]


def backslash_splits():
    """every statement of SPLIT_STATEMENTS with a backslash continuation (+ indented next line) inserted at every blank
    between two tokens, at module level and inside a function body"""
    out = []
    for st in SPLIT_STATEMENTS:
        idx = [i for i, c in enumerate(st) if c == ' ']
        for i in idx:
            v = st[:i] + ' \\\n    ' + st[i + 1:]
            out.append(v + '\n')
            out.append('def outer(self):\n    ' + v.replace('\n', '\n    ') + '\n')
    return out
