------------------------------- MODULE Lines -------------------------------
(***************************************************************************)
(* C15: line splitting and source decoding follow Python's rules.          *)
(*                                                                         *)
(* SplitLines(s, keepends) is defined by a scanner over code points:       *)
(* exactly \n, \r\n and \r end a line - never form feed, vertical tab,     *)
(* FS/GS/RS, NEL, U+2028/2029 -, the result always has at least one line   *)
(* and (with keepends) concatenates back to the input.                     *)
(*                                                                         *)
(* Header(lines, bom) is PEP 263 as a function of the first two lines:     *)
(* the encoding is utf-8 by default (and with a UTF-8 BOM); a declaration  *)
(* counts only if it is a comment on line 1, or on line 2 when line 1 is   *)
(* blank or a comment.  Line classes are abstract: [kind, enc].            *)
(***************************************************************************)
EXTENDS Naturals, Sequences, FiniteSets, TLC, Json

NL == 10
CR == 13

(* fold: state = <<finished lines, current line>> *)
SplitLines(s, keepends) ==
  LET F[k \in 0..Len(s)] ==
        IF k = 0 THEN << <<>>, <<>> >>
        ELSE LET p == F[k - 1]
                 ch == s[k]
                 nextIsNL == k < Len(s) /\ s[k + 1] = NL
             IN IF ch = NL THEN << Append(p[1], IF keepends THEN Append(p[2], ch) ELSE p[2]), <<>> >>
                ELSE IF ch = CR /\ ~nextIsNL
                     THEN << Append(p[1], IF keepends THEN Append(p[2], ch) ELSE p[2]), <<>> >>
                ELSE IF ch = CR THEN << p[1], IF keepends THEN Append(p[2], ch) ELSE p[2] >>  \* \r of \r\n
                ELSE << p[1], Append(p[2], ch) >>
      r == F[Len(s)]
  IN Append(r[1], r[2])

Concat(ls) == LET F[k \in 0..Len(ls)] == IF k = 0 THEN <<>> ELSE F[k - 1] \o ls[k] IN F[Len(ls)]
Breaks(s) == Cardinality({k \in 1..Len(s) : s[k] = NL \/ (s[k] = CR /\ ~(k < Len(s) /\ s[k + 1] = NL))})

(* trace = [id, inp, keep, drop, modlines] : what parso.split_lines returned with / without keepends and the  *)
(* line of the module's end position for parse(inp)                                                          *)
LineVerdict(tr) ==
  IF tr.raised THEN "NeverFails"
  ELSE IF tr.keep # SplitLines(tr.inp, TRUE) THEN "SplitKeepends"
  ELSE IF tr.drop # SplitLines(tr.inp, FALSE) THEN "SplitDropends"
  ELSE IF Len(tr.keep) < 1 THEN "AtLeastOneLine"
  ELSE IF Concat(tr.keep) # tr.inp THEN "JoinsBackToInput"
  ELSE IF Len(tr.keep) # Breaks(tr.inp) + 1 THEN "LineCountIsBreaksPlusOne"
  ELSE IF tr.modlines # 0 /\ tr.modlines # Len(tr.keep) THEN "SameLineCountAsTree"
  ELSE "ok"

(* ------------------------------ decoding ------------------------------ *)
(* line class kinds: "blank", "comment", "cookie" (comment with a declaration of enc), "code",            *)
(* "codecookie" (code followed by a comment with a declaration), "strcookie" (code whose string literal     *)
(* contains declaration text), "none" (the line does not exist)                                             *)
Declares(l) == l.kind = "cookie"
Transparent(l) == l.kind \in {"blank", "comment"}
HeaderEncoding(l1, l2, bom) ==
  IF Declares(l1) THEN l1.enc
  ELSE IF Transparent(l1) /\ Declares(l2) THEN l2.enc
  ELSE "utf-8"
(* trace = [l1, l2, bom, ref (what CPython's tokenize.detect_encoding + decode gave: ok + text id), got (parso)] *)
DecodeVerdict(tr) ==
  IF ~tr.refok THEN "ok"                               \* CPython cannot decode it: no claim
  ELSE IF tr.raised THEN "DecodesWhateverCPythonDecodes"
  ELSE IF tr.got # tr.ref THEN "SameTextAsCPython"
  ELSE IF tr.specenc # "" /\ tr.refenc # "" /\ tr.specenc # tr.refenc THEN "drift:HeaderEncoding"
  ELSE "ok"

Batch == JsonDeserialize("batch.json")
Traces == Batch.traces
NT == Len(Traces)
VARIABLES tid, nacc, nrej
vars == <<tid, nacc, nrej>>
Init == tid = 1 /\ nacc = 0 /\ nrej = 0
Judge ==
  /\ tid <= NT
  /\ LET tr == Traces[tid]
         v == IF tr.kind = "lines" THEN LineVerdict(tr)
              ELSE LET t2 == [tr EXCEPT !.specenc = HeaderEncoding(tr.l1, tr.l2, tr.bom)] IN DecodeVerdict(t2)
     IN IF v = "ok" THEN nacc' = nacc + 1 /\ nrej' = nrej
        ELSE PrintT(<<"REJECT", tr.id, tr.kind, v, 0>>) /\ nrej' = nrej + 1 /\ nacc' = nacc
  /\ tid' = tid + 1
Finish == /\ tid = NT + 1 /\ PrintT(<<"SUMMARY", nacc, nrej>>)
          /\ tid' = NT + 2 /\ UNCHANGED <<nacc, nrej>>
Next == Judge \/ Finish
Spec == Init /\ [][Next]_vars
=============================================================================
