------------------------------- MODULE Issues -------------------------------
(***************************************************************************)
(* A-spec for C13 (syntax-error listing) and C20 (PEP 8 checker): what a    *)
(* list of issues for a tree must look like, evaluated by TLC on traces     *)
(* recorded from Grammar.iter_errors / Grammar._get_normalizer_issues.      *)
(*                                                                         *)
(* trace = [id, kind ("errors" | "pep8"), inp, nodes (type, leaf, tt, kids, *)
(*   sp, s, e), raised, calls = two lists of issues from two calls on the   *)
(*   same tree, d0/d1 = interned dump() before/after, strict = strict       *)
(*   parsing raised, prov = issue lists for the same text from the other    *)
(*   provenances (incremental re-parse, cache unpickle), fs39 = version     *)
(*   >= 3.9].  issue = [code, mp (message up to the first ": "), ml         *)
(*   (message length), s, e].                                              *)
(***************************************************************************)
EXTENDS TokenStream, FiniteSetsExt, Json

PosLT(a, b) == a[1] < b[1] \/ (a[1] = b[1] /\ a[2] < b[2])

IssueVerdict(tr) ==
  LET nodes == tr.nodes
      N == Len(nodes)
      inp == tr.inp
      iss == IF Len(tr.calls) >= 1 THEN tr.calls[1] ELSE <<>>
      NI == Len(iss)
      modEnd == IF N >= 1 THEN nodes[1].e ELSE <<1, 0>>
      leafIdx == SelectSeq([i \in 1..N |-> i], LAMBDA i : nodes[i].leaf)
      L == Len(leafIdx)
      SubEnd[i \in 1..N] == IF nodes[i].kids = <<>> THEN i ELSE SubEnd[nodes[i].kids[Len(nodes[i].kids)]]
      \* the first leaf with an index greater than the end of i's subtree = the leaf following node i
      NextLeafAfter(i) == LET c == {j \in 1..L : leafIdx[j] > SubEnd[i]} IN IF c = {} THEN 0 ELSE leafIdx[Min(c)]
      InErr[i \in 0..N] == IF i = 0 \/ i = 1 THEN FALSE
                           ELSE nodes[nodes[i].sp].type = "error_node" \/ InErr[nodes[i].sp]
      HasFString(i) == \E j \in i..SubEnd[i] : nodes[j].type = "fstring_start"
      lines == {iss[k].s[1] : k \in 1..NI}
      errLeaves == {i \in 1..N : nodes[i].type = "error_leaf" /\ ~InErr[i]}
      errNodes == {i \in 1..N : nodes[i].type = "error_node" /\ ~InErr[i]}
      missLeaf == {i \in errLeaves : nodes[i].s[1] \notin lines}
      missNode == {i \in errNodes : NextLeafAfter(i) # 0 /\ nodes[NextLeafAfter(i)].s[1] \notin lines}
      InFile(x) == ~PosLT(x.s, <<1, 0>>) /\ ~PosLT(x.e, x.s) /\ ~PosLT(modEnd, x.e) /\ x.s[2] >= 0 /\ x.e[2] >= 0
      endsInBreak == Len(inp) > 0 /\ inp[Len(inp)] \in {NL, CR}
      has292 == \E k \in 1..NI : iss[k].code = 292
      clean == ~\E i \in 1..N : nodes[i].type \in {"error_node", "error_leaf"}
  IN
  IF tr.raised THEN "ListingNeverRaises"
  ELSE IF tr.d0 # tr.d1 THEN "TreeNotModified"
  ELSE IF Len(tr.calls) >= 2 /\ tr.calls[1] # tr.calls[2] THEN "Deterministic"
  ELSE IF \E k \in 1..NI : ~InFile(iss[k]) THEN "RangeInsideFile"
  (* the same text reached through another provenance (incremental re-parse after an earlier listing on the old  *)
  (* tree, pickle round trip) must list the same issues: the result depends on the tree's text only             *)
  ELSE IF \E p \in 1..Len(tr.prov) : tr.prov[p] # iss
       THEN (IF tr.kind = "errors" THEN "IndependentOfEarlierCallsAndProvenance" ELSE "SameForEveryProvenance")
  ELSE IF tr.kind = "errors" THEN
       IF \E k \in 1..NI : iss[k].code \notin {901, 903} THEN "CodeIs901or903"
       ELSE IF \E k \in 1..NI : iss[k].mp # (IF iss[k].code = 901 THEN "SyntaxError" ELSE "IndentationError")
            THEN "MessagePrefixMatchesCode"
       ELSE IF Cardinality(lines) # NI THEN "AtMostOneIssuePerLine"
       ELSE IF missLeaf # {} THEN "ErrorLeafLineHasIssue"
       ELSE IF missNode # {} THEN
            (IF tr.fs39 /\ HasFString(Min(missNode)) THEN "ErrorNodeNextLineHasIssue:fstring-node"
             ELSE "ErrorNodeNextLineHasIssue")
       ELSE IF tr.strict /\ NI = 0 THEN "NonEmptyWhenStrictFails"
       ELSE "ok"
  ELSE \* pep8
       IF \E k \in 1..NI : iss[k].code < 1 \/ iss[k].ml = 0 THEN "NumericCodeAndMessage"
       ELSE IF Cardinality({<<iss[k].code, iss[k].s>> : k \in 1..NI}) # NI THEN "NoDuplicateCodePosition"
       ELSE IF clean /\ (has292 # ~endsInBreak) /\ Len(inp) > 0 THEN "W292IffNoFinalLineBreak"
       ELSE "ok"

Batch == JsonDeserialize("batch.json")
Traces == Batch.traces
NT == Len(Traces)
VARIABLES tid, nacc, nrej
vars == <<tid, nacc, nrej>>
Init == tid = 1 /\ nacc = 0 /\ nrej = 0
Judge ==
  /\ tid <= NT
  /\ LET v == IssueVerdict(Traces[tid]) IN
     IF v = "ok" THEN nacc' = nacc + 1 /\ nrej' = nrej
     ELSE PrintT(<<"REJECT", Traces[tid].id, Traces[tid].kind, v, 0>>) /\ nrej' = nrej + 1 /\ nacc' = nacc
  /\ tid' = tid + 1
Finish == /\ tid = NT + 1 /\ PrintT(<<"SUMMARY", nacc, nrej>>)
          /\ tid' = NT + 2 /\ UNCHANGED <<nacc, nrej>>
Next == Judge \/ Finish
Spec == Init /\ [][Next]_vars
=============================================================================
