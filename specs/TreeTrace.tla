---------------------------- MODULE TreeTrace ----------------------------
(***************************************************************************)
(* Batch validation of trees recorded from the real parser against the     *)
(* A-spec Tree.  batch.json = {groups: [...], traces: [{id, inp, nodes,    *)
(* posq, raised}]}.  One step per tree; total: every tree gets a verdict   *)
(* per clause group (= property), rejected ones are printed with the first *)
(* failing clause and node.                                                *)
(***************************************************************************)
EXTENDS Tree, Json

Batch == JsonDeserialize("batch.json")
Traces == Batch.traces
Groups == {Batch.groups[i] : i \in 1..Len(Batch.groups)}
NT == Len(Traces)

VARIABLES tid, nacc, nrej
vars == <<tid, nacc, nrej>>

Init == tid = 1 /\ nacc = 0 /\ nrej = 0

Judge ==
  /\ tid <= NT
  /\ LET tr == Traces[tid] IN
     IF tr.raised
     THEN /\ PrintT(<<"REJECT", tr.id, "ALL", "NeverFails:raised", 0>>)
          /\ nrej' = nrej + 1 /\ nacc' = nacc
     ELSE LET v == TreeVerdicts(tr.inp, tr.nodes, tr.posq, Groups, tr.aux)
              bad == {g \in Groups : v[g][1] # "ok"}
          IN /\ \A g \in bad : PrintT(<<"REJECT", tr.id, g, v[g][1], v[g][2]>>)
             /\ IF bad = {} THEN nacc' = nacc + 1 /\ nrej' = nrej
                ELSE nrej' = nrej + 1 /\ nacc' = nacc
  /\ tid' = tid + 1

Finish ==
  /\ tid = NT + 1
  /\ PrintT(<<"SUMMARY", nacc, nrej>>)
  /\ tid' = NT + 2 /\ UNCHANGED <<nacc, nrej>>

Next == Judge \/ Finish
Spec == Init /\ [][Next]_vars
=============================================================================
