------------------------------ MODULE DiffTrace ------------------------------
(***************************************************************************)
(* A-spec (DiffMonitor) for C04: incremental re-parsing is observationally *)
(* identical to a fresh parse after any edit history.                      *)
(*                                                                         *)
(* A trace is one edit history replayed through                            *)
(* grammar.parse(text_i, diff_cache=True, path=p); per step the recorder   *)
(* logs (values only; lines, dumps and name indexes are interned to ints): *)
(*   old, new    : the line sequences before / after the edit               *)
(*   events      : what the diff parser did, from its own LOG.debug lines:  *)
(*                 opcode(equal, offset) / copy(newFrom, newTo) /           *)
(*                 parse(from, to)  - optional: absent events stutter       *)
(*   tree, fresh : dump() of the returned module and of a non-incremental   *)
(*                 parse of the same text (Fresh = the real parser)         *)
(*   code, text  : module.get_code() and the new text                       *)
(*   used, fused : get_used_names() of both (the harness warms the index    *)
(*                 before every update so a missed invalidation shows)      *)
(*   same        : the returned module is the cached object (in-place)      *)
(*   raised      : the call raised                                          *)
(***************************************************************************)
EXTENDS Naturals, Sequences, FiniteSets, TLC, Json

Batch == JsonDeserialize("batch.json")
Traces == Batch.traces
NT == Len(Traces)

(* Internal events (diagnostic clauses: they localise a wrong result to the copy that caused it; a rejection
   by one of them alone is reported as MODEL-DRIFT, the verdict rests on the Return clauses above them).
   A copy continues where the previous copy/parse ended and may only copy lines that are identical in the old
   and the new document - that is what makes copying sound.  (The `from` of a parse event is the start of the
   first parsed node's prefix, which calibration showed is not always parsed_until + 1: no clause on it.) *)
RECURSIVE Events(_, _, _, _, _)
Events(st, evs, k, until, off) ==
  IF k > Len(evs) THEN "ok"
  ELSE LET e == evs[k] IN
       IF e.ev = "opcode" THEN Events(st, evs, k + 1, until, e.a)
       ELSE IF e.ev = "copy" THEN
            IF e.a # until + 1 THEN "CopyContiguous"
            ELSE IF e.b < e.a THEN "CopyProgress"
            ELSE IF \E ln \in e.a..e.b :
                       \/ ln > Len(st.new) \/ ln - off < 1 \/ ln - off > Len(st.old)
                       \/ st.new[ln] # st.old[ln - off]
                 THEN "CopiedTextIdentical"
            ELSE Events(st, evs, k + 1, e.b, off)
       ELSE \* parse
            IF e.b < until THEN "ParsedLinesNeverShrink"   \* (a part may end before its last line is complete: no progress yet)
            ELSE Events(st, evs, k + 1, e.b, off)

StepClause(st) ==
  IF st.raised # "" THEN "NeverFails"
  ELSE IF st.code # st.text THEN "CodeIsNewText"
  ELSE IF st.tree # st.fresh THEN "TreeEqualsFresh"
  ELSE IF st.used # st.fused THEN "UsedNamesNotStale"
  ELSE Events(st, st.events, 1, 0, 0)

RECURSIVE Run(_, _)
Run(steps, k) == IF k > Len(steps) THEN <<"ok", 0>>
                 ELSE LET c == StepClause(steps[k]) IN IF c = "ok" THEN Run(steps, k + 1) ELSE <<c, k>>

VARIABLES tid, nacc, nrej
vars == <<tid, nacc, nrej>>
Init == tid = 1 /\ nacc = 0 /\ nrej = 0
Judge ==
  /\ tid <= NT
  /\ LET v == Run(Traces[tid].steps, 1) IN
     IF v[1] = "ok" THEN nacc' = nacc + 1 /\ nrej' = nrej
     ELSE PrintT(<<"REJECT", Traces[tid].id, "diff", v[1], v[2]>>) /\ nrej' = nrej + 1 /\ nacc' = nacc
  /\ tid' = tid + 1
Finish == /\ tid = NT + 1 /\ PrintT(<<"SUMMARY", nacc, nrej>>)
          /\ tid' = NT + 2 /\ UNCHANGED <<nacc, nrej>>
Next == Judge \/ Finish
Spec == Init /\ [][Next]_vars
=============================================================================
