---------------------------- MODULE IndentShapes ----------------------------
(***************************************************************************)
(* Generator: every way the lines of a compound-statement skeleton can be  *)
(* (mis-)indented.  A skeleton is a sequence of line kinds (header lines   *)
(* such as `try:` / `except E:` / `@dec` / `def f():` and body lines); TLC  *)
(* enumerates, for every skeleton, every assignment of an indentation       *)
(* column from Cols to each line (the first line is fixed at Base).  The    *)
(* renderings exercise every INDENT / DEDENT / ERROR_DEDENT recovery path   *)
(* of the tokenizer and parser at the places where editors leave them.      *)
(***************************************************************************)
EXTENDS Naturals, Sequences, TLC
CONSTANTS NSkel, SkelLen, Cols, Bases     \* SkelLen: [1..NSkel -> number of lines]
VARIABLES k, ind
Init == /\ k \in 1..NSkel
        /\ \E b \in Bases : ind = <<b>>
Next == /\ Len(ind) < SkelLen[k]
        /\ \E c \in Cols : ind' = Append(ind, c)
        /\ UNCHANGED k
Spec == Init /\ [][Next]_<<k, ind>>
Complete == Len(ind) = SkelLen[k]
=============================================================================
