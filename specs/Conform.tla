------------------------------ MODULE Conform ------------------------------
(***************************************************************************)
(* C05: what it means for a node to be "a complete instance of the rule it *)
(* is named after", defined from the grammar TEXT (gs.json carries the     *)
(* syntax trees read by the independent EBNF reader; Ebnf gives them their *)
(* position automata) plus the documented tree conventions.  Used by       *)
(* ParserB (nodes closing in the design) and by ConformTrace (nodes of     *)
(* trees returned by the real parser).                                     *)
(***************************************************************************)
EXTENDS Ebnf, TLC, Json

Gs == JsonDeserialize("gs.json")
Rules == Gs[1].rules
NRules == Len(Rules)
Info == [r \in 1..NRules |-> RhsInfo(Rules[r].rhs)]
RuleNames == {Rules[r].name : r \in 1..NRules}
RuleNamed(n) == CHOOSE r \in 1..NRules : Rules[r].name = n
FileInputR == RuleNamed("file_input")
SuiteR == RuleNamed("suite")
SimpleStmtR == RuleNamed("simple_stmt")
VNEWLINE == <<"V", "NEWLINE">>        \* the newline the missing-final-newline tolerance pretends to have seen

(***************************************************************************)
(* Conformance of a closing node with the grammar TEXT (C05).              *)
(* A child symbol is a token <<kind, value>>, a rule <<"N", name>>, an     *)
(* error node/leaf <<"E", ...>> or VNEWLINE.  Unit[n] = symbols X such     *)
(* that rule n derives the one-symbol sentence X (what single-child        *)
(* collapse can put in n's place).                                         *)
(***************************************************************************)
OneSym(r) == {Info[r].symOf[p] : p \in Info[r].first \cap Info[r].last}
SymOfG(s) == IF s[1] = "N" THEN <<"N", s[3]>> ELSE <<s[1], s[3]>>
RECURSIVE UnitIter(_)
UnitIter(U) ==
  LET nxt == [r \in 1..NRules |->
                U[r] \cup UNION {U[RuleNamed(s[3])] : s \in {x \in OneSym(r) : x[1] = "N"}}]
  IN IF nxt = U THEN U ELSE UnitIter(nxt)
Unit == UnitIter([r \in 1..NRules |-> {SymOfG(s) : s \in OneSym(r)}])

(* does child symbol c fit grammar symbol s (spelled <<kind, raw, value>>) inside rule r ? *)
Fits(r, s, c) ==
  IF s[1] # "N" THEN c = <<s[1], s[3]>> \/ (c = VNEWLINE /\ s[1] = "T" /\ s[3] = "NEWLINE")
  ELSE \/ c = <<"N", s[3]>>
       \/ c \in Unit[RuleNamed(s[3])]                                         \* Collapse
       \/ c[1] = "E" /\ s[3] \in {"stmt", "simple_stmt"} /\ r \in {FileInputR, SuiteR}   \* ErrorStandsFor a statement
       \/ c[1] = "E" /\ s[3] = "suite"                                        \* ... or for a whole collapsed block
StepFit(r, P, c) == {p \in NextPos(Info[r], P) : Fits(r, Info[r].symOf[p], c)}
Accepts(r, syms) ==
  LET F[j \in 0..Len(syms)] == IF j = 0 THEN {0} ELSE StepFit(r, F[j - 1], syms[j])
  IN (Len(syms) > 0 => F[Len(syms)] # {}) /\ Accepting(Info[r], F[Len(syms)])

=============================================================================
