---------------------------- MODULE ConformTrace ----------------------------
(***************************************************************************)
(* C05 on trees returned by the real parser: every node other than an      *)
(* error node must be a complete instance of the rule it is named after    *)
(* (Conform.Accepts against the grammar TEXT of the tree's version), under  *)
(* the documented conventions, made explicit here:                         *)
(*   Collapse            - a child may be any one-symbol sentence of the   *)
(*                         expected nonterminal (Unit closure);            *)
(*   SuiteConvention     - a block's INDENT/DEDENT leaves are omitted;     *)
(*   ParamGrouping       - typedargslist/varargslist of a def/lambda is    *)
(*                         regrouped into param nodes (flattened here);    *)
(*   LambdaMerge         - lambdef_nocond is named lambdef;                *)
(*   MissingFinalNewline - the last simple statement before the end of the *)
(*                         file may lack its NEWLINE (and is then usually  *)
(*                         collapsed to the bare small statement);         *)
(*   ErrorStandsFor      - an error node/leaf occupies a statement slot of *)
(*                         file_input/suite or a whole (collapsed) block   *)
(*                         - and nothing else (ErrorsConfined).            *)
(* batch.json = {traces: [{id, nodes: [{type, leaf, tt, sv, kids, eof}]}]} *)
(* (one grammar version per batch: gs.json).                               *)
(***************************************************************************)
EXTENDS Conform

Batch == JsonDeserialize("batch.json")
Traces == Batch.traces
NT == Len(Traces)

Reserved == UNION {{s[3] : s \in {Info[r].symOf[p] : p \in DOMAIN Info[r].symOf} \cap
                              {x \in {Info[r].symOf[p] : p \in DOMAIN Info[r].symOf} : x[1] = "S"}} : r \in 1..NRules}
HasRule(n) == n \in RuleNames
SmallUnit == IF HasRule("small_stmt") THEN Unit[RuleNamed("small_stmt")] \cup {<<"N", "small_stmt">>} ELSE {}

LeafTok(n) ==
  CASE n.type \in {"keyword", "operator"} -> IF n.sv \in Reserved THEN <<"S", n.sv>> ELSE <<"T", "OP">>
    [] n.type = "name" -> <<"T", "NAME">>
    [] n.type = "number" -> <<"T", "NUMBER">>
    [] n.type = "string" -> <<"T", "STRING">>
    [] n.type = "newline" -> <<"T", "NEWLINE">>
    [] n.type = "endmarker" -> <<"T", "ENDMARKER">>
    [] n.type = "fstring_start" -> <<"T", "FSTRING_START">>
    [] n.type = "fstring_string" -> <<"T", "FSTRING_STRING">>
    [] n.type = "fstring_end" -> <<"T", "FSTRING_END">>
    [] n.type = "error_leaf" -> <<"E", n.tt>>
    [] OTHER -> <<"T", "UNKNOWN-LEAF-TYPE">>
SymOf(n) == IF n.leaf THEN LeafTok(n)
            ELSE IF n.type = "error_node" THEN <<"E", "error_node">>
            ELSE <<"N", n.type>>
Alias(c) == IF c = <<"N", "lambdef">> THEN {c, <<"N", "lambdef_nocond">>} ELSE {c}

(* acceptance with the conventions that need to know where a child sits (eofs[j]: child j ends the file) *)
FitsX(r, s, c, eof) ==
  \/ \E c2 \in Alias(c) : Fits(r, s, c2)
  \/ eof /\ s[1] = "N" /\ s[3] \in {"stmt", "simple_stmt", "suite"} /\ c \in SmallUnit
AcceptsX(r, syms, eofs) ==
  LET F[j \in 0..Len(syms)] ==
        IF j = 0 THEN {0}
        ELSE {p \in NextPos(Info[r], F[j - 1]) : FitsX(r, Info[r].symOf[p], syms[j], eofs[j])}
  IN (Len(syms) > 0 => F[Len(syms)] # {}) /\ Accepting(Info[r], F[Len(syms)])
AcceptsOrUnit(name, syms, eofs) ==
  HasRule(name) /\ (\/ AcceptsX(RuleNamed(name), syms, eofs)
                    \/ Len(syms) = 1 /\ syms[1] \in Unit[RuleNamed(name)] \cup {<<"N", name>>})

Verdict(nodes) ==
  LET N == Len(nodes)
      Flat(i) ==  \* children with param nodes flattened: sequence of node indices
        LET ks == nodes[i].kids
            F[j \in 0..Len(ks)] == IF j = 0 THEN <<>>
                                   ELSE F[j - 1] \o (IF nodes[ks[j]].type = "param" THEN nodes[ks[j]].kids ELSE <<ks[j]>>)
        IN F[Len(ks)]
      KidSyms(i) == LET f == Flat(i) IN [j \in 1..Len(f) |-> SymOf(nodes[f[j]])]
      Eofs(i) == LET f == Flat(i) IN [j \in 1..Len(f) |-> nodes[f[j]].eof]
      FALSES(n) == [j \in 1..n |-> FALSE]
      Try(names, syms, eofs) == \E nm \in names : HasRule(nm) /\ AcceptsX(RuleNamed(nm), syms, eofs)
      NodeOkWith(i, eo) ==
        LET n == nodes[i]
            sy == KidSyms(i)
            names == IF n.type = "lambdef" THEN {"lambdef", "lambdef_nocond"} ELSE {n.type}
        IN
        \/ Try(names, sy, eo)
        \* SuiteConvention
        \/ n.type = "suite" /\ Len(sy) >= 1 /\ sy[1] = <<"T", "NEWLINE">>
             /\ Try(names, <<sy[1], <<"T", "INDENT">>>> \o SubSeq(sy, 2, Len(sy)) \o << <<"T", "DEDENT">> >>,
                    <<FALSE, FALSE>> \o SubSeq(eo, 2, Len(eo)) \o <<FALSE>>)
        \* MissingFinalNewline on a simple_stmt that kept its node (several small statements)
        \/ n.type = "simple_stmt" /\ n.eof /\ Try(names, Append(sy, VNEWLINE), Append(eo, FALSE))
        \* ParamGrouping: def
        \/ n.type = "parameters" /\ Len(sy) >= 3 /\ sy[1] = <<"S", "(">> /\ sy[Len(sy)] = <<"S", ")">>
             /\ AcceptsOrUnit("typedargslist", SubSeq(sy, 2, Len(sy) - 1), FALSES(Len(sy) - 2))
        \* ParamGrouping: lambda  (split at the first ':' leaf)
        \/ n.type = "lambdef" /\ Len(sy) >= 4 /\ sy[1] = <<"S", "lambda">>
             /\ \E j \in 3..Len(sy) :
                   /\ sy[j] = <<"S", ":">> /\ \A q \in 2..(j - 1) : sy[q] # <<"S", ":">>
                   /\ AcceptsOrUnit("varargslist", SubSeq(sy, 2, j - 1), FALSES(j - 2))
                   /\ Try(names, <<sy[1], <<"N", "varargslist">>>> \o SubSeq(sy, j, Len(sy)),
                          <<FALSE, FALSE>> \o SubSeq(eo, j, Len(eo)))
      NodeOk(i) == NodeOkWith(i, Eofs(i))
      (* would the node conform if the missing-newline tolerance were allowed anywhere, not only at end of file? *)
      RelaxedOk(i) == NodeOkWith(i, [j \in 1..Len(Eofs(i)) |-> TRUE])
                      \/ (nodes[i].type = "simple_stmt" /\ \E nm \in {"simple_stmt"} :
                            AcceptsX(RuleNamed(nm), Append(KidSyms(i), VNEWLINE), Append([j \in 1..Len(Eofs(i)) |-> TRUE], FALSE)))
      Checked == {i \in 1..N : ~nodes[i].leaf /\ nodes[i].type \notin {"error_node", "param"}}
      unknown == {i \in Checked : ~HasRule(nodes[i].type)}
      bad == {i \in Checked \ unknown : ~NodeOk(i)}
      Min(S) == CHOOSE x \in S : \A y \in S : x <= y
      OnlyErrorsWrong(i) == \E k \in 1..Len(KidSyms(i)) : KidSyms(i)[k][1] = "E"
  IN IF unknown # {} THEN <<"NodeTypeIsRule", Min(unknown)>>
     ELSE IF bad # {} /\ RelaxedOk(Min(bad)) THEN <<"NodesConform:newline-missing-not-at-end-of-file", Min(bad)>>
     ELSE IF bad # {} THEN <<IF OnlyErrorsWrong(Min(bad)) THEN "NodesConform/ErrorsConfined" ELSE "NodesConform", Min(bad)>>
     ELSE <<"ok", 0>>

VARIABLES tid, nacc, nrej
vars == <<tid, nacc, nrej>>
Init == tid = 1 /\ nacc = 0 /\ nrej = 0
Judge ==
  /\ tid <= NT
  /\ LET tr == Traces[tid] IN
     IF tr.raised
     THEN PrintT(<<"REJECT", tr.id, "C05", "NeverFails:raised", 0>>) /\ nrej' = nrej + 1 /\ nacc' = nacc
     ELSE LET v == Verdict(tr.nodes) IN
          IF v[1] = "ok" THEN nacc' = nacc + 1 /\ nrej' = nrej
          ELSE PrintT(<<"REJECT", tr.id, "C05", v[1], v[2]>>) /\ nrej' = nrej + 1 /\ nacc' = nacc
  /\ tid' = tid + 1
Finish == /\ tid = NT + 1 /\ PrintT(<<"SUMMARY", nacc, nrej>>)
          /\ tid' = NT + 2 /\ UNCHANGED <<nacc, nrej>>
Next == Judge \/ Finish
Spec == Init /\ [][Next]_vars
=============================================================================
