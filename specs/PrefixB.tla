------------------------------- MODULE PrefixB -------------------------------
(***************************************************************************)
(* B-spec of parso.python.prefix.split_prefix: how the text in front of a   *)
(* token (blanks, comments, line ends, backslash continuations, form feeds, *)
(* a BOM) is cut into parts and where each part is said to start.           *)
(*                                                                         *)
(* A prefix is a sequence of atoms                                          *)
(*   sp tab (blanks)  ff (form feed)  nl crnl cr (the three line ends)      *)
(*   cmt (a comment "#c")  cmtff (a comment with an embedded form feed,     *)
(*   "#c\fd")  bsnl bscr bscrnl (backslash + line end)  bom                 *)
(* Rendering constraints: a comment runs to the end of the line (only a     *)
(* line end may follow it) and a BOM only occurs as the very first atom.    *)
(*                                                                         *)
(* Split transcribes the loop: optional blanks, then exactly one of         *)
(* comment / backslash / newline / formfeed / bom makes a part (type,       *)
(* value, the blanks before it as `spacing`, start = position of the value);*)
(* blanks at the very end make the last part, of type spacing; that last    *)
(* part always exists, possibly empty.  Column bookkeeping as in the code   *)
(* (`column = -start` after a line end, `column -= 1` after a BOM).         *)
(*                                                                         *)
(* Checked by TLC over all valid prefixes up to MaxLen atoms and the three  *)
(* kinds of start position:                                                 *)
(*   PartsTile      spacing+value of the parts, in order, is the prefix     *)
(*   PositionsTrue  every part starts where walking the characters from the *)
(*                  start position says (line ends advance the line, a BOM  *)
(*                  has no width)                                           *)
(*   EndsMeet       the end of a part (as PrefixPart.end_pos computes it)   *)
(*                  is the start of the next part's spacing                 *)
(*   LastIsSpacing  the last part has type spacing, no other part has       *)
(* Binding: real split_prefix results for enumerated prefixes are compared  *)
(* with Split (trace mode), checks/C09.py.                                  *)
(***************************************************************************)
EXTENDS Naturals, Integers, Sequences, TLC, Json

PB == JsonDeserialize("pb.json")      \* maxlen, mode ("explore" | "trace"), traces
Atoms == {"sp", "tab", "ff", "nl", "crnl", "cr", "cmt", "cmtff", "bsnl", "bscr", "bscrnl", "bom"}
Chars(a) == CASE a = "sp" -> <<" ">> [] a = "tab" -> <<"\t">> [] a = "ff" -> <<"\f">> [] a = "nl" -> <<"\n">>
              [] a = "crnl" -> <<"\r", "\n">> [] a = "cr" -> <<"\r">> [] a = "cmt" -> <<"#", "c">>
              [] a = "cmtff" -> <<"#", "c", "\f", "d">> [] a = "bsnl" -> <<"\\", "\n">> [] a = "bscr" -> <<"\\", "\r">>
              [] a = "bscrnl" -> <<"\\", "\r", "\n">> [] a = "bom" -> <<"BOM">>
LineEnd(a) == a \in {"nl", "crnl", "cr", "bsnl", "bscr", "bscrnl"}
TypeOf(a) == CASE a \in {"cmt", "cmtff"} -> "comment" [] a \in {"bsnl", "bscr", "bscrnl"} -> "backslash"
               [] a \in {"nl", "crnl", "cr"} -> "newline" [] a = "ff" -> "formfeed" [] a = "bom" -> "bom"
Blank(a) == a \in {"sp", "tab"}
RECURSIVE Flat(_)
Flat(ls) == IF ls = <<>> THEN <<>> ELSE Chars(Head(ls)) \o Flat(Tail(ls))
Width(ls) == Len(Flat(ls))

Valid(p) ==
  /\ \A i \in 1..Len(p) : p[i] = "bom" => i = 1
  /\ \A i \in 1..(Len(p) - 1) : p[i] \in {"cmt", "cmtff"} => p[i + 1] \in {"nl", "crnl", "cr"}
  (* "\r" directly followed by "\n" would be one line end *)
  /\ \A i \in 1..(Len(p) - 1) : p[i] \in {"cr", "bscr"} => p[i + 1] # "nl"

RECURSIVE SkipBlank(_, _)
SkipBlank(p, j) == IF j <= Len(p) /\ Blank(p[j]) THEN SkipBlank(p, j + 1) ELSE j

RECURSIVE Split(_, _, _, _, _)
(* i: next atom; start: characters consumed so far; line, column: the code's variables; returns the parts *)
Split(p, i, start, line, column) ==
  LET k == SkipBlank(p, i)
      spacing == Flat(SubSeq(p, i, k - 1))
  IN
  IF k > Len(p)
  THEN << <<"spacing", spacing, <<>>, line, column + start>> >>       \* also when nothing is left: an empty part
  ELSE LET a == p[k]
           v == Chars(a)
           w == IF a = "bom" THEN 1 ELSE Len(v)          \* the BOM is one character of the text
           part == <<TypeOf(a), v, spacing, line, column + start + Len(spacing)>>
           col1 == IF a = "bom" THEN column - 1 ELSE column
           start1 == start + Len(spacing) + w
       IN << part >> \o (IF LineEnd(a) THEN Split(p, k + 1, start1, line + 1, 0 - start1)
                         ELSE Split(p, k + 1, start1, line, col1))

Parts(p, line, col) == Split(p, 1, 0, line, col)

(* ---- reference: the true position of every character offset, independent of the splitting ---- *)
RECURSIVE TruePos(_, _, _, _)
(* position <<line, col>> after the first n atoms *)
TruePos(p, n, line, col) ==
  IF n = 0 THEN <<line, col>>
  ELSE LET q == TruePos(p, n - 1, line, col) a == p[n] IN
       IF LineEnd(a) THEN <<q[1] + 1, 0>> ELSE IF a = "bom" THEN q ELSE <<q[1], q[2] + Len(Chars(a))>>

(* PrefixPart.end_pos *)
EndPos(part) ==
  LET v == part[2] IN
  IF v # <<>> /\ v[Len(v)] \in {"\n", "\r"} THEN <<part[4] + 1, 0>>
  ELSE IF v = <<"BOM">> THEN <<part[4], part[5]>>
  ELSE <<part[4], part[5] + Len(v)>>

VARIABLES pre, sline, scol, tid, nacc, nrej
vars == <<pre, sline, scol, tid, nacc, nrej>>
Prefixes == UNION {{p \in [1..n -> Atoms] : Valid(p)} : n \in 0..PB.maxlen}
StartPositions == {<<1, 0>>, <<3, 0>>, <<2, 5>>}
Init == /\ IF PB.mode = "explore"
           THEN /\ pre \in Prefixes
                /\ \E sp \in StartPositions : sline = sp[1] /\ scol = sp[2]
                /\ (pre # <<>> /\ pre[1] = "bom") => (sline = 1 /\ scol = 0)
           ELSE pre = <<>> /\ sline = 1 /\ scol = 0
        /\ tid = 1 /\ nacc = 0 /\ nrej = 0

RECURSIVE TileOf(_)
TileOf(parts) == IF parts = <<>> THEN <<>> ELSE Head(parts)[3] \o Head(parts)[2] \o TileOf(Tail(parts))
PartsTile == PB.mode = "explore" => TileOf(Parts(pre, sline, scol)) = Flat(pre)
(* number of atoms consumed before part j's value: recomputed from the tiling *)
RECURSIVE AtomsBefore(_, _, _)
AtomsBefore(p, nchars, n) == IF Width(SubSeq(p, 1, n)) >= nchars THEN n ELSE AtomsBefore(p, nchars, n + 1)
PositionsTrue ==
  PB.mode = "explore" =>
    LET parts == Parts(pre, sline, scol) IN
    \A j \in 1..Len(parts) :
      LET before == Len(TileOf(SubSeq(parts, 1, j - 1))) + Len(parts[j][3])     \* characters before the value
          n == AtomsBefore(pre, before, 0)
          tp == TruePos(pre, n, sline, scol)
      IN <<parts[j][4], parts[j][5]>> = tp
EndsMeet ==
  PB.mode = "explore" =>
    LET parts == Parts(pre, sline, scol) IN
    \A j \in 1..(Len(parts) - 1) :
      LET e == EndPos(parts[j]) nxt == parts[j + 1] IN
      e = <<nxt[4], nxt[5] - Len(nxt[3])>>
LastIsSpacing ==
  PB.mode = "explore" =>
    LET parts == Parts(pre, sline, scol) IN
    /\ parts[Len(parts)][1] = "spacing"
    /\ \A j \in 1..(Len(parts) - 1) : parts[j][1] # "spacing"

(* ------------------------------ trace mode: real split_prefix results against Parts --------------------------- *)
Traces == PB.traces
NT == Len(Traces)
Verdict(tr) ==
  LET want == Parts(tr.pre, tr.line, tr.col) IN
  IF tr.raised THEN "SplitNeverFails"
  ELSE IF Len(want) # Len(tr.parts) THEN "PartCount"
  ELSE IF \E j \in 1..Len(want) : want[j][1] # tr.parts[j][1] THEN "PartType"
  ELSE IF \E j \in 1..Len(want) : want[j][2] # tr.parts[j][2] \/ want[j][3] # tr.parts[j][3] THEN "PartText"
  ELSE IF \E j \in 1..Len(want) : want[j][4] # tr.parts[j][4] \/ want[j][5] # tr.parts[j][5] THEN "PartPosition"
  ELSE "ok"
Judge ==
  /\ PB.mode = "trace" /\ tid <= NT
  /\ LET v == Verdict(Traces[tid]) IN
     IF v = "ok" THEN nacc' = nacc + 1 /\ nrej' = nrej
     ELSE PrintT(<<"REJECT", Traces[tid].id, "prefixb", v, 0>>) /\ nrej' = nrej + 1 /\ nacc' = nacc
  /\ tid' = tid + 1 /\ UNCHANGED <<pre, sline, scol>>
Finish ==
  /\ PB.mode = "trace" /\ tid = NT + 1 /\ PrintT(<<"SUMMARY", nacc, nrej>>) /\ tid' = NT + 2
  /\ UNCHANGED <<pre, sline, scol, nacc, nrej>>
Next == Judge \/ Finish
Spec == Init /\ [][Next]_vars
=============================================================================
