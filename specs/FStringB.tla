------------------------------ MODULE FStringB ------------------------------
(***************************************************************************)
(* B-spec of the f-string sub-machine of parso.python.tokenize             *)
(* (tokenize_lines, FStringNode, _find_fstring_string,                     *)
(* _close_fstring_if_necessary), single-line f-strings with two quote      *)
(* kinds, at LEXEME granularity and LINE at a time - like the code, which  *)
(* takes one physical line and runs a position over it.                    *)
(*                                                                         *)
(* Lexemes:  F (the letter f: a string prefix when a quote follows)        *)
(*   QS QD (quotes)  X T (the names t / a)  LB RB (braces)  CO (:)  BA (!) *)
(*   O C (round brackets)  W (one blank).  Every line ends in a newline.   *)
(*                                                                         *)
(* State = the tokenizer's own variables between two lines: the f-string   *)
(* stack (quote, parentheses_count, format_spec_count per level), the      *)
(* bracket level, new_line, additional_prefix, the indentation stack.      *)
(* RunLine transcribes the body of `while pos < max_`:                     *)
(*   1 string / format-spec mode of the innermost level gathers text up to *)
(*     a brace, the end of the line or a quote that closes ANY open level  *)
(*     ({{ and }} are text in string mode, not in a format spec);          *)
(*   2 after optional blanks a quote that closes any open level closes the *)
(*     OUTERMOST such level and everything inside (FSTRING_END, the blanks *)
(*     become its prefix);                                                 *)
(*   3 otherwise an ordinary token is matched on the line TRUNCATED at the *)
(*     first quote that closes an open level: `f` + quote starts a nested  *)
(*     f-string only when that quote is not already open; a lone quote     *)
(*     with a partner before the truncation point is an ordinary STRING,   *)
(*     without one an ERRORTOKEN; braces and brackets count on the         *)
(*     innermost level (the count may go negative); `:` at depth 1 above   *)
(*     the format-spec count opens a format spec;                          *)
(*   4 the newline clears the whole stack (single-line f-strings) and is a *)
(*     NEWLINE token unless the line was empty or a bracket is open.       *)
(*                                                                         *)
(* Checked by TLC over every sequence of lines with at most MaxLen lexemes *)
(*   Tiles        prefix+string of the tokens of a line concatenate to the *)
(*                line (design-level C01/C09 for this sub-machine)         *)
(*   Balanced     FSTRING_ENDs never exceed FSTRING_STARTs on a line; the  *)
(*                stack is empty between lines                             *)
(*   StringsPure  FSTRING_STRING never contains a quote that was open when *)
(*                it was emitted, never a single brace in string mode      *)
(*   NoIndentInside  no INDENT / DEDENT after an FSTRING_START of the line *)
(*   EnvOk        the layout tokens obey TokEnv                            *)
(* Binding: simulated runs are rendered and tokenized for real (spec ->    *)
(* code), and real token streams of enumerated lines are compared with     *)
(* Predict (code -> spec); both in checks/C09.py, disagreement = drift.    *)
(***************************************************************************)
EXTENDS Naturals, Integers, Sequences, TLC, TokEnv, Json

FB == JsonDeserialize("fb.json")   \* maxlen, maxlines, hist, maxind, mode ("explore" | "trace"), traces
Lex == {"F", "QS", "QD", "X", "T", "LB", "RB", "CO", "BA", "O", "C", "W"}
Chars(lx) == CASE lx = "F" -> <<"f">> [] lx = "QS" -> <<"'">> [] lx = "QD" -> <<"\"">> [] lx = "X" -> <<"t">>
               [] lx = "T" -> <<"a">> [] lx = "LB" -> <<"{">> [] lx = "RB" -> <<"}">> [] lx = "CO" -> <<":">>
               [] lx = "BA" -> <<"!">> [] lx = "O" -> <<"(">> [] lx = "C" -> <<")">> [] lx = "W" -> <<" ">>
IsQuote(lx) == lx \in {"QS", "QD"}
NameLike(lx) == lx \in {"F", "X", "T"}

RECURSIVE Flat(_)
Flat(ls) == IF ls = <<>> THEN <<>> ELSE Chars(Head(ls)) \o Flat(Tail(ls))

(* rendering constraints (not tokenizer behaviour): adjacent names would merge into one name; three equal quotes  *)
(* in a row would be a triple quote                                                                               *)
Valid(ls) ==
  /\ \A i \in 1..(Len(ls) - 1) : ~(NameLike(ls[i]) /\ NameLike(ls[i + 1]))
  /\ \A i \in 1..(Len(ls) - 2) : ~(IsQuote(ls[i]) /\ ls[i + 1] = ls[i] /\ ls[i + 2] = ls[i])

Top(s) == s[Len(s)]
InExpr(nd) == nd.par > nd.fmt
InSpec(nd) == ~InExpr(nd) /\ nd.fmt > 0
OpenQ(stk, lx) == \E k \in 1..Len(stk) : stk[k].q = lx
Outermost(stk, lx) == CHOOSE k \in 1..Len(stk) : stk[k].q = lx /\ \A j \in 1..(k - 1) : stk[j].q # lx

RECURSIVE Dedent(_, _)
Dedent(ind, start) ==
  IF start >= Top(ind) THEN << <<>>, ind >>
  ELSE IF start > ind[Len(ind) - 1] THEN << << <<"ERROR_DEDENT", <<>>, start, <<>> >> >>, [ind EXCEPT ![Len(ind)] = start] >>
  ELSE LET r == Dedent(SubSeq(ind, 1, Len(ind) - 1), start)
       IN << << <<"DEDENT", <<>>, start, <<>> >> >> \o r[1], r[2] >>

(* -------------------------------------------------------------------------------------------------------------- *)
(* one physical line.  s = [stk, paren, newLine, addp, indents]; returns s' with field out = tokens of the line     *)
(* -------------------------------------------------------------------------------------------------------------- *)
RECURSIVE Gather(_, _, _, _, _)
(* text of string / format-spec mode starting at j: <<chars, next index>> *)
Gather(ls, j, stk, spec, acc) ==
  IF j > Len(ls) THEN <<acc, j>>
  ELSE LET l == ls[j] IN
    IF IsQuote(l) /\ OpenQ(stk, l) THEN <<acc, j>>
    ELSE IF spec THEN (IF l \in {"LB", "RB"} THEN <<acc, j>> ELSE Gather(ls, j + 1, stk, spec, acc \o Chars(l)))
    ELSE IF l \in {"LB", "RB"}
         THEN (IF j + 1 <= Len(ls) /\ ls[j + 1] = l THEN Gather(ls, j + 2, stk, spec, acc \o Chars(l) \o Chars(l))
               ELSE <<acc, j>>)
    ELSE Gather(ls, j + 1, stk, spec, acc \o Chars(l))

RECURSIVE SkipW(_, _)
SkipW(ls, j) == IF j <= Len(ls) /\ ls[j] = "W" THEN SkipW(ls, j + 1) ELSE j
Blanks(n) == [i \in 1..n |-> " "]

(* first index >= k whose quote closes an open level (the line is truncated there for ordinary tokens) *)
RECURSIVE Trunc(_, _, _)
Trunc(ls, k, stk) == IF k > Len(ls) THEN k ELSE IF IsQuote(ls[k]) /\ OpenQ(stk, ls[k]) THEN k ELSE Trunc(ls, k + 1, stk)
RECURSIVE Partner(_, _, _, _)
Partner(ls, j, lim, q) == IF j >= lim THEN 0 ELSE IF ls[j] = q THEN j ELSE Partner(ls, j + 1, lim, q)

(* close_parentheses: the format spec ends when the count returns to 0 *)
CloseP(stk) == LET nd == Top(stk) IN
  [stk EXCEPT ![Len(stk)] = [q |-> nd.q, par |-> nd.par - 1, fmt |-> IF nd.par - 1 = 0 THEN 0 ELSE nd.fmt]]
OpenP(stk) == [stk EXCEPT ![Len(stk)] = [@ EXCEPT !.par = @ + 1]]

RECURSIVE Run(_, _, _, _)
(* i = index of the next unconsumed lexeme, col = its column *)
Run(ls, i, col, s) ==
  IF i > Len(ls) THEN [s EXCEPT !.col = col, !.ws = 0]
  ELSE
  LET stk == s.stk
      g == IF stk # <<>> /\ ~InExpr(Top(stk)) THEN Gather(ls, i, stk, InSpec(Top(stk)), <<>>) ELSE << <<>>, i >>
  IN
  IF g[1] # <<>>
  THEN Run(ls, g[2], col + Len(g[1]), [s EXCEPT !.out = Append(@, <<"FSTRING_STRING", g[1], col, <<>> >>)])
  ELSE
  LET k == SkipW(ls, i)
      nws == k - i
      start == col + nws
      prefix == s.addp \o Blanks(nws)
  IN
  IF k > Len(ls) THEN [s EXCEPT !.col = start, !.ws = nws]          \* only blanks left: they join the newline's prefix
  ELSE
  LET lx == ls[k] IN
  IF stk # <<>> /\ IsQuote(lx) /\ OpenQ(stk, lx)
  THEN LET idx == Outermost(stk, lx) IN
       Run(ls, k + 1, start + 1,
           [s EXCEPT !.out = Append(@, <<"FSTRING_END", Chars(lx), start, prefix>>), !.addp = <<>>,
                     !.stk = SubSeq(stk, 1, idx - 1)])
  ELSE
  LET first == s.newLine
      layoutOn == first /\ s.paren = 0 /\ stk = <<>>
      indTok == IF layoutOn /\ start > Top(s.indents) THEN << <<"INDENT", <<>>, start, <<>> >> >> ELSE <<>>
      ind1 == IF indTok # <<>> THEN Append(s.indents, start) ELSE s.indents
      ded == IF layoutOn THEN Dedent(ind1, start) ELSE << <<>>, ind1 >>
      s1 == [s EXCEPT !.newLine = FALSE, !.indents = ded[2], !.out = @ \o indTok \o ded[1], !.addp = <<>>]
      lim == Trunc(ls, k, stk)
      Tok(ty, chars) == <<ty, chars, start, prefix>>
  IN
  IF lx = "F"
  THEN IF k + 1 < lim /\ IsQuote(ls[k + 1])
       THEN Run(ls, k + 2, start + 2,
                [s1 EXCEPT !.out = Append(@, Tok("FSTRING_START", <<"f">> \o Chars(ls[k + 1]))),
                           !.stk = Append(stk, [q |-> ls[k + 1], par |-> 0, fmt |-> 0])])
       ELSE Run(ls, k + 1, start + 1, [s1 EXCEPT !.out = Append(@, Tok("NAME", <<"f">>))])
  ELSE IF lx \in {"X", "T"}
  THEN Run(ls, k + 1, start + 1, [s1 EXCEPT !.out = Append(@, Tok("NAME", Chars(lx)))])
  ELSE IF IsQuote(lx)
  THEN LET p == Partner(ls, k + 1, lim, lx) IN
       IF p > 0
       THEN Run(ls, p + 1, start + (p - k + 1), [s1 EXCEPT !.out = Append(@, Tok("STRING", Flat(SubSeq(ls, k, p))))])
       ELSE Run(ls, k + 1, start + 1, [s1 EXCEPT !.out = Append(@, Tok("ERRORTOKEN", Chars(lx)))])
  ELSE IF lx \in {"O", "LB"}
  THEN Run(ls, k + 1, start + 1,
           [s1 EXCEPT !.out = Append(@, Tok("OP", Chars(lx))),
                      !.stk = IF stk # <<>> THEN OpenP(stk) ELSE stk,
                      !.paren = IF stk # <<>> THEN s.paren ELSE s.paren + 1])
  ELSE IF lx \in {"C", "RB"}
  THEN Run(ls, k + 1, start + 1,
           [s1 EXCEPT !.out = Append(@, Tok("OP", Chars(lx))),
                      !.stk = IF stk # <<>> THEN CloseP(stk) ELSE stk,
                      !.paren = IF stk = <<>> /\ s.paren > 0 THEN s.paren - 1 ELSE s.paren])
  ELSE IF lx = "CO"
  THEN Run(ls, k + 1, start + 1,
           [s1 EXCEPT !.out = Append(@, Tok("OP", Chars(lx))),
                      !.stk = IF stk # <<>> /\ Top(stk).par - Top(stk).fmt = 1
                              THEN [stk EXCEPT ![Len(stk)] = [@ EXCEPT !.fmt = @ + 1]] ELSE stk])
  ELSE (* BA *)
       Run(ls, k + 1, start + 1, [s1 EXCEPT !.out = Append(@, Tok("OP", Chars(lx)))])

(* the newline that ends every line *)
EndLine(s) ==
  LET prefix == s.addp \o Blanks(s.ws)
      stk2 == <<>>                                           \* every level here is single-line
  IN IF ~s.newLine /\ s.paren = 0
     THEN [s EXCEPT !.out = Append(@, <<"NEWLINE", <<"\n">>, s.col, prefix>>), !.addp = <<>>, !.stk = stk2, !.newLine = TRUE]
     ELSE [s EXCEPT !.addp = prefix \o <<"\n">>, !.stk = stk2, !.newLine = TRUE]

Line(ls, s) == EndLine(Run(ls, 1, 0, [s EXCEPT !.out = <<>>, !.col = 0, !.ws = 0]))

S0 == [stk |-> <<>>, paren |-> 0, newLine |-> TRUE, addp |-> <<>>, indents |-> <<0>>, out |-> <<>>, col |-> 0, ws |-> 0]
EndTokens(s) == [i \in 1..(Len(s.indents) - 1) |-> <<"DEDENT", <<>>, 0, <<>> >>] \o << <<"ENDMARKER", <<>>, 0, s.addp>> >>

RECURSIVE Predict(_, _, _)
(* the whole token stream of a sequence of lines *)
Predict(lines, s, acc) ==
  IF lines = <<>> THEN acc \o EndTokens(s)
  ELSE LET s2 == Line(Head(lines), s) IN Predict(Tail(lines), s2, acc \o s2.out)

(* ------------------------------------------------ exploration ------------------------------------------------- *)
VARIABLES st, nlines, cur, env, envBad, hist, tid, nacc, nrej
vars == <<st, nlines, cur, env, envBad, hist, tid, nacc, nrej>>

LineSet == UNION {{l \in [1..n -> Lex] : Valid(l)} : n \in 0..FB.maxlen}

KindOf(tok) == IF tok[1] \in {"INDENT", "DEDENT", "ERROR_DEDENT", "NEWLINE", "ENDMARKER"} THEN tok[1] ELSE "OTHER"
RECURSIVE Monitor(_, _, _)
Monitor(e, toks, bad) ==
  IF toks = <<>> THEN <<e, bad>>
  ELSE LET k == KindOf(toks[1]) IN Monitor(After(e, k), Tail(toks), bad \/ ~Allows(e, k, FB.maxind))

Init == /\ st = S0 /\ nlines = 0 /\ cur = <<>> /\ env = EnvInit /\ envBad = FALSE /\ hist = <<>>
        /\ tid = 1 /\ nacc = 0 /\ nrej = 0

Feed(l) ==
  /\ FB.mode = "explore" /\ nlines < FB.maxlines
  /\ LET s2 == Line(l, st) IN
     /\ st' = s2
     /\ LET m == Monitor(env, s2.out, envBad) IN env' = m[1] /\ envBad' = m[2]
  /\ cur' = l /\ nlines' = nlines + 1
  /\ hist' = IF FB.hist THEN Append(hist, l) ELSE hist
  /\ UNCHANGED <<tid, nacc, nrej>>

Close ==
  /\ FB.mode = "explore" /\ nlines > 0 /\ nlines <= FB.maxlines
  /\ FB.hist /\ PrintT(<<"FRUN", hist, Predict(hist, S0, <<>>)>>)
  /\ nlines' = FB.maxlines + 1
  /\ UNCHANGED <<st, cur, env, envBad, hist, tid, nacc, nrej>>

(* ------------------------------- trace mode: real token streams against Predict ------------------------------ *)
Traces == FB.traces
NT == Len(Traces)
Verdict(tr) ==
  LET p == Predict(tr.lines, S0, <<>>) IN
  IF Len(p) # Len(tr.toks) THEN "TokenCount"
  ELSE IF \E i \in 1..Len(p) : p[i][1] # tr.toks[i][1] THEN "TokenType"
  ELSE IF \E i \in 1..Len(p) : p[i][2] # tr.toks[i][2] THEN "TokenString"
  ELSE IF \E i \in 1..Len(p) : p[i][3] # tr.toks[i][3] THEN "TokenColumn"
  ELSE IF \E i \in 1..Len(p) : p[i][4] # tr.toks[i][4] THEN "TokenPrefix"
  ELSE "ok"
Judge ==
  /\ FB.mode = "trace" /\ tid <= NT
  /\ LET v == Verdict(Traces[tid]) IN
     IF v = "ok" THEN nacc' = nacc + 1 /\ nrej' = nrej
     ELSE PrintT(<<"REJECT", Traces[tid].id, "fstringb", v, 0>>) /\ nrej' = nrej + 1 /\ nacc' = nacc
  /\ tid' = tid + 1
  /\ UNCHANGED <<st, nlines, cur, env, envBad, hist>>
Finish ==
  /\ FB.mode = "trace" /\ tid = NT + 1 /\ PrintT(<<"SUMMARY", nacc, nrej>>) /\ tid' = NT + 2
  /\ UNCHANGED <<st, nlines, cur, env, envBad, hist, nacc, nrej>>

Next == (\E l \in LineSet : Feed(l)) \/ Close \/ Judge \/ Finish
Spec == Init /\ [][Next]_vars

(* ------------------------------------------------- properties ------------------------------------------------- *)
RECURSIVE TileOf(_)
TileOf(toks) == IF toks = <<>> THEN <<>> ELSE Head(toks)[4] \o Head(toks)[2] \o TileOf(Tail(toks))
(* the tokens of the last line tile the line, up to the part that went to additional_prefix *)
Tiles == nlines = 0 \/ nlines > FB.maxlines \/
         LET t == TileOf(st.out) \o st.addp IN
         \E d \in 0..Len(t) : SubSeq(t, d + 1, Len(t)) = Flat(cur) \o <<"\n">>     \* d = carried-over prefix of earlier lines
Count(toks, ty) == Len(SelectSeq(toks, LAMBDA t : t[1] = ty))
Balanced == st.stk = <<>> /\ Count(st.out, "FSTRING_END") <= Count(st.out, "FSTRING_START")
           /\ \A i \in 1..Len(st.out) : Count(SubSeq(st.out, 1, i), "FSTRING_END") <= Count(SubSeq(st.out, 1, i), "FSTRING_START")
NoIndentInside ==
  \A i, j \in 1..Len(st.out) : (i < j /\ st.out[i][1] = "FSTRING_START") => st.out[j][1] \notin {"INDENT", "DEDENT", "ERROR_DEDENT"}
(* text between an f-string's tokens is accounted for: an FSTRING_STRING never has a prefix and is never empty *)
StringsPure == \A i \in 1..Len(st.out) : st.out[i][1] = "FSTRING_STRING" => st.out[i][4] = <<>> /\ st.out[i][2] # <<>>
(* columns are those of the rendering: each token starts where the previous one ended plus its own prefix *)
RECURSIVE LineW(_)
LineW(p) == IF p = <<>> \/ p[Len(p)] = "\n" THEN 0 ELSE 1 + LineW(SubSeq(p, 1, Len(p) - 1))   \* width after the last newline
RECURSIVE ColsOk(_, _)
ColsOk(toks, c) == toks = <<>> \/ LET t == Head(toks) IN
  IF t[1] \in {"INDENT", "DEDENT", "ERROR_DEDENT"} THEN ColsOk(Tail(toks), c)
  ELSE t[3] = c + LineW(t[4]) /\ ColsOk(Tail(toks), t[3] + Len(t[2]))
Columns == ColsOk(st.out, 0)
EnvOk == ~envBad
=============================================================================
