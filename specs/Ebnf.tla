------------------------------- MODULE Ebnf -------------------------------
(***************************************************************************)
(* Reference semantics of a grammar rule's right-hand side, defined from   *)
(* the syntax tree of the EBNF text (operators | [] () * +) by its         *)
(* position (Glushkov) automaton.  No NFA/DFA construction is shared with  *)
(* parso.pgen2: this is the specification the generated tables are held    *)
(* against (C08) and that defines "sentence of the rule" for C05/C06.      *)
(*                                                                         *)
(* AST: [op |-> "sym", id, s] | [op |-> "alt"|"seq", l, r]                 *)
(*      | [op |-> "opt"|"star"|"plus", l]                                  *)
(* A state of the automaton is a set of positions (symbol ids); {0} is the *)
(* initial state.                                                          *)
(***************************************************************************)
EXTENDS Naturals, Sequences, FiniteSets

RECURSIVE Nullable(_), First(_), Last(_), Follow(_), Syms(_)
Nullable(e) == CASE e.op = "sym"  -> FALSE
                 [] e.op = "alt"  -> Nullable(e.l) \/ Nullable(e.r)
                 [] e.op = "seq"  -> Nullable(e.l) /\ Nullable(e.r)
                 [] e.op = "opt"  -> TRUE
                 [] e.op = "star" -> TRUE
                 [] e.op = "plus" -> Nullable(e.l)
First(e) == CASE e.op = "sym" -> {e.id}
              [] e.op = "alt" -> First(e.l) \cup First(e.r)
              [] e.op = "seq" -> IF Nullable(e.l) THEN First(e.l) \cup First(e.r) ELSE First(e.l)
              [] OTHER -> First(e.l)
Last(e) == CASE e.op = "sym" -> {e.id}
             [] e.op = "alt" -> Last(e.l) \cup Last(e.r)
             [] e.op = "seq" -> IF Nullable(e.r) THEN Last(e.l) \cup Last(e.r) ELSE Last(e.r)
             [] OTHER -> Last(e.l)
Follow(e) == CASE e.op = "sym" -> {}
               [] e.op = "alt" -> Follow(e.l) \cup Follow(e.r)
               [] e.op = "seq" -> Follow(e.l) \cup Follow(e.r) \cup (Last(e.l) \X First(e.r))
               [] e.op = "opt" -> Follow(e.l)
               [] OTHER -> Follow(e.l) \cup (Last(e.l) \X First(e.l))     \* star, plus
Syms(e) == CASE e.op = "sym" -> {<<e.id, e.s>>}
             [] e.op \in {"alt", "seq"} -> Syms(e.l) \cup Syms(e.r)
             [] OTHER -> Syms(e.l)

(* Everything the automaton of one right-hand side needs, computed once. *)
RhsInfo(e) ==
  LET sy == Syms(e) IN
  [nullable |-> Nullable(e), first |-> First(e), last |-> Last(e), follow |-> Follow(e),
   symOf |-> [p \in {x[1] : x \in sy} |-> (CHOOSE x \in sy : x[1] = p)[2]]]

NextPos(I, P) == IF P = {0} THEN I.first
                 ELSE {y \in DOMAIN I.symOf : \E x \in P : <<x, y>> \in I.follow}
Accepting(I, P) == IF P = {0} THEN I.nullable ELSE P \cap I.last # {}
EnabledSyms(I, P) == {I.symOf[p] : p \in NextPos(I, P)}
StepOn(I, P, s) == {p \in NextPos(I, P) : I.symOf[p] = s}

IsTerminal(lab) == lab[1] # "N"      \* "T:NAME" / "S:if" versus "N:rule"
=============================================================================
