---------------------------- MODULE ThreadTrace ----------------------------
(***************************************************************************)
(* A-spec for C18, evaluated on what real threads did under an imposed      *)
(* schedule.  trace = [id, events = << [thread, key, digest, fresh] >>,     *)
(* expected (number of calls the programs contain), warm, fpBefore,         *)
(* fpAfter, fpWarm, raised]  (digests and fingerprints interned to ints)    *)
(*   ResultIsFunctionOfArgs : every call's result digest equals the digest  *)
(*       of the same call (text, version, options) in a fresh interpreter;  *)
(*   SharedWriteOnce : after the run the shared state (loaded grammars and  *)
(*       their tables, token collections, rule registries, module globals)  *)
(*       is structurally the fully initialised state - and when it was      *)
(*       already initialised before the run it did not change at all; and   *)
(*       no interpreter-wide setting (recursion limit, switch interval, gc) *)
(*       differs from its value before the run at any yield point of any    *)
(*       thread (envchanged = names of the settings seen changed).          *)
(***************************************************************************)
EXTENDS Naturals, Sequences, FiniteSets, TLC, Json
Batch == JsonDeserialize("batch.json")
Traces == Batch.traces
NT == Len(Traces)
Verdict(tr) ==
  IF tr.raised # "" THEN "NoCallFails"
  ELSE IF Len(tr.events) # tr.expected THEN "AllCallsComplete"
  ELSE IF \E i \in 1..Len(tr.events) : tr.events[i].digest # tr.events[i].fresh THEN "ResultIsFunctionOfArgs"
  ELSE IF tr.fpAfter # tr.fpWarm THEN "SharedWriteOnce:final-state"
  ELSE IF tr.warm /\ tr.fpBefore # tr.fpAfter THEN "SharedWriteOnce:changed-after-first-use"
  ELSE IF tr.envchanged # "" THEN "SharedWriteOnce:interpreter-setting-changed-during-calls"
  ELSE "ok"
VARIABLES tid, nacc, nrej
vars == <<tid, nacc, nrej>>
Init == tid = 1 /\ nacc = 0 /\ nrej = 0
Judge == /\ tid <= NT
         /\ LET v == Verdict(Traces[tid]) IN
            IF v = "ok" THEN nacc' = nacc + 1 /\ nrej' = nrej
            ELSE PrintT(<<"REJECT", Traces[tid].id, "threads", v, 0>>) /\ nrej' = nrej + 1 /\ nacc' = nacc
         /\ tid' = tid + 1
Finish == /\ tid = NT + 1 /\ PrintT(<<"SUMMARY", nacc, nrej>>) /\ tid' = NT + 2 /\ UNCHANGED <<nacc, nrej>>
Next == Judge \/ Finish
Spec == Init /\ [][Next]_vars
=============================================================================
