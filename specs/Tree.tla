------------------------------- MODULE Tree -------------------------------
(***************************************************************************)
(* A-spec for the tree-level properties:                                   *)
(*   C01 lossless round trip        (LeavesTile, NodeCodeIsSlice)          *)
(*   C02 shape of the module        (RootShape, InteriorNonEmpty, ...)     *)
(*   C03 positions are true         (LeafStart/End, NodeSpan, PrefixStart) *)
(*   C09 prefixes pure and split    (PurePrefix, SplitPrefix...)           *)
(*   C11 navigation and lookup      (Parent, Root, First/Last/Next/Prev,   *)
(*                                   Sibling, Ancestor, LeafForPosition)   *)
(*                                                                         *)
(* A recorded tree is a sequence of node records in pre-order (following   *)
(* `.children`): every field is what the real API returned for that node.  *)
(* Everything the clauses compare those fields with is defined here from   *)
(* the input text and the child lists alone.                               *)
(*                                                                         *)
(* Node record: cls, type, tt (token type of error leaves), leaf, par      *)
(* (what .parent returned), sp/ci (structural parent and index in its      *)
(* child list), kids, val, pre, strs, s, e (start_pos/end_pos), ps         *)
(* (get_start_pos_of_prefix), fl, ll, nl, pl, nsb, psb, root, anc, hc/code *)
(* (get_code), hp/parts (_split_prefix).  Index 0 = None, -1 = object      *)
(* outside the tree, -2 = the call raised.                                 *)
(***************************************************************************)
EXTENDS TokenStream, FiniteSetsExt

ScanSeq(Op(_, _), init, n) ==
  (* <<init, Op(init,1), Op(Op(init,1),2), ...>> : n+1 elements *)
  LET F[k \in 0..n] == IF k = 0 THEN <<init>>
                       ELSE LET p == F[k - 1] IN Append(p, Op(p[k], k))
  IN F[n]

IsLayoutLeaf(n) == n.leaf /\ n.type = "error_leaf" /\ n.tt \in LayoutTypes

PosLT(a, b) == a[1] < b[1] \/ (a[1] = b[1] /\ a[2] < b[2])

(***************************************************************************)
(* TreeVerdicts(inp, nodes, posq, groups, aux): for every group in `groups` *)
(* first failing <<clause, node index>> or <<"ok", 0>>.                    *)
(***************************************************************************)
TreeVerdicts(inp, nodes, posq, groups, aux) ==
  LET N == Len(nodes)
      ptab == PosTable(inp)
      cntS == ScanSeq(LAMBDA c, i : c + (IF nodes[i].leaf THEN 1 ELSE 0), 0, N)
      Cnt(i) == cntS[i + 1]                       \* number of leaves among nodes 1..i
      leafIdx == SelectSeq([i \in 1..N |-> i], LAMBDA i : nodes[i].leaf)
      L == Len(leafIdx)
      offS == ScanSeq(LAMBDA o, r : o + Len(nodes[leafIdx[r]].pre) + Len(nodes[leafIdx[r]].val), 0, L)
      Off(r) == offS[r]                           \* offset of the first character of leaf r's prefix
      EndOff(r) == offS[r + 1]
      SubEnd[i \in 1..N] == IF nodes[i].kids = <<>> THEN i
                            ELSE SubEnd[nodes[i].kids[Len(nodes[i].kids)]]
      HasLeaves(i) == nodes[i].leaf \/ Cnt(SubEnd[i]) > Cnt(i)
      FirstLeaf(i) == IF nodes[i].leaf THEN i ELSE IF HasLeaves(i) THEN leafIdx[Cnt(i) + 1] ELSE 0
      LastLeaf(i) == IF nodes[i].leaf THEN i ELSE IF HasLeaves(i) THEN leafIdx[Cnt(SubEnd[i])] ELSE 0
      Rank(i) == Cnt(i)                           \* for a leaf i
      NR[r \in 1..(L + 1)] == IF r > L THEN 0
                              ELSE IF ~IsLayoutLeaf(nodes[leafIdx[r]]) THEN r ELSE NR[r + 1]
      RealStart(r) == PosOf(ptab, Off(r) + Len(nodes[leafIdx[r]].pre))
      ExpStart(r) == IF IsLayoutLeaf(nodes[leafIdx[r]])
                     THEN (IF NR[r] = 0 THEN PosOf(ptab, Len(inp)) ELSE RealStart(NR[r]))
                     ELSE RealStart(r)
      ExpEnd(r) == IF IsLayoutLeaf(nodes[leafIdx[r]]) THEN ExpStart(r) ELSE PosOf(ptab, EndOff(r))
      Slice(i) == SubSeq(inp, Off(Rank(FirstLeaf(i))) + 1, EndOff(Rank(LastLeaf(i))))

      (* ---------------- C01 ---------------- *)
      C01Node(i) ==
        LET n == nodes[i] IN
        IF n.leaf /\ Off(Rank(i)) + Len(n.pre) + Len(n.val) > Len(inp) THEN "LeavesTile:beyond-input"
        ELSE IF n.leaf /\ SubSeq(inp, Off(Rank(i)) + 1, Off(Rank(i)) + Len(n.pre)) # n.pre THEN "LeavesTile:prefix"
        ELSE IF n.leaf /\ SubSeq(inp, Off(Rank(i)) + Len(n.pre) + 1, EndOff(Rank(i))) # n.val THEN "LeavesTile:value"
        ELSE IF i = 1 /\ offS[L + 1] # Len(inp) THEN "LeavesTile:input-left"
        ELSE IF i = 1 /\ n.code # inp THEN "RootCodeIsInput"
        ELSE IF n.hc /\ HasLeaves(i) /\ n.code # Slice(i) THEN "NodeCodeIsSlice"
        ELSE "ok"

      (* ---------------- C02 ---------------- *)
      C02Node(i) ==
        LET n == nodes[i] IN
        IF i = 1 /\ n.par # 0 THEN "RootHasNoParent"
        ELSE IF i = 1 /\ n.leaf THEN "RootIsModule"
        ELSE IF i = 1 /\ n.kids = <<>> THEN "RootEndsInEndmarker"
        ELSE IF i = 1 /\ nodes[n.kids[Len(n.kids)]].type # "endmarker" THEN "RootEndsInEndmarker"
        ELSE IF ~n.leaf /\ n.kids = <<>> THEN "InteriorNonEmpty"
        ELSE IF n.leaf /\ ~n.strs THEN "LeafHasStrings"
        ELSE "ok"

      (* ---------------- C03 ---------------- *)
      C03Node(i) ==
        LET n == nodes[i] IN
        IF ~HasLeaves(i) THEN "ok"
        ELSE IF n.s # ExpStart(Rank(FirstLeaf(i))) THEN (IF n.leaf THEN "LeafStartTrue" ELSE "NodeStartsAtFirstLeaf")
        ELSE IF n.e # ExpEnd(Rank(LastLeaf(i))) THEN (IF n.leaf THEN "LeafEndTrue" ELSE "NodeEndsAtLastLeaf")
        ELSE IF n.leaf /\ ~IsLayoutLeaf(n) /\ n.ps # PosOf(ptab, Off(Rank(i))) THEN "PrefixStartIsPrevEnd"
        ELSE IF ~n.leaf /\ ~IsLayoutLeaf(nodes[FirstLeaf(i)]) /\ n.ps # PosOf(ptab, Off(Rank(FirstLeaf(i))))
             THEN "NodePrefixStart"
        ELSE IF i = 1 /\ n.e # PosOf(ptab, Len(inp)) THEN "ModuleEndIsEndOfInput"
        ELSE IF n.leaf /\ Rank(i) > 1 /\ PosLT(n.s, nodes[leafIdx[Rank(i) - 1]].e) THEN "LeavesOrdered"
        ELSE "ok"

      (* ---------------- C09 (tree half) ---------------- *)
      PartsOk(i) ==
        LET n == nodes[i]
            P == n.parts
            base == Off(Rank(i))
            lenS == ScanSeq(LAMBDA a, j : a + Len(P[j].sp) + Len(P[j].v), 0, Len(P))
            Bad(j) == IF P[j].ty = "RAISED" THEN "SplitPrefixNeverFails"
                      ELSE IF base + lenS[j + 1] > base + Len(n.pre) THEN "SplitPrefixTiles"
                      ELSE IF SubSeq(n.pre, lenS[j] + 1, lenS[j + 1]) # P[j].sp \o P[j].v THEN "SplitPrefixTiles"
                      ELSE IF P[j].s # PosOf(ptab, base + lenS[j] + Len(P[j].sp)) THEN "SplitPrefixPartStart"
                      ELSE IF P[j].e # PosOf(ptab, base + lenS[j + 1]) THEN "SplitPrefixPartEnd"
                      ELSE IF P[j].s[2] < 0 THEN "SplitPrefixPartStart"
                      ELSE "ok"
            bad == {j \in 1..Len(P) : Bad(j) # "ok"}
        IN IF bad # {} THEN Bad(Min(bad))
           ELSE IF lenS[Len(P) + 1] # Len(n.pre) THEN "SplitPrefixTiles"
           ELSE "ok"
      C09Node(i) ==
        LET n == nodes[i] IN
        IF ~n.leaf THEN "ok"
        ELSE IF ~PurePrefix(n.pre, Off(Rank(i)) = 0) THEN "PurePrefix"
        ELSE IF n.hp /\ ~IsLayoutLeaf(n) THEN PartsOk(i)
        ELSE "ok"

      (* ---------------- C11 ---------------- *)
      NextLeafOf(i) == IF ~HasLeaves(i) THEN 0
                       ELSE LET r == Rank(LastLeaf(i)) IN IF r = L \/ i = 1 THEN 0 ELSE leafIdx[r + 1]
      PrevLeafOf(i) == IF ~HasLeaves(i) THEN 0
                       ELSE LET r == Rank(FirstLeaf(i)) IN IF r = 1 \/ i = 1 THEN 0 ELSE leafIdx[r - 1]
      NextSib(i) == IF i = 1 THEN 0
                    ELSE LET ks == nodes[nodes[i].sp].kids IN
                         IF nodes[i].ci = Len(ks) THEN 0 ELSE ks[nodes[i].ci + 1]
      PrevSib(i) == IF i = 1 THEN 0
                    ELSE LET ks == nodes[nodes[i].sp].kids IN
                         IF nodes[i].ci = 1 THEN 0 ELSE ks[nodes[i].ci - 1]
      Anc[i \in 0..N] == \* sequence of proper ancestors, nearest first
        IF i = 0 \/ i = 1 THEN <<>> ELSE <<nodes[i].sp>> \o Anc[nodes[i].sp]
      Nearest(i, types) ==
        LET a == Anc[i]
            hit == {j \in 1..Len(a) : nodes[a[j]].type \in types}
        IN IF hit = {} THEN 0 ELSE a[Min(hit)]
      AncBad(i) == \E q \in 1..Len(nodes[i].anc) :
                      nodes[i].anc[q][2] # Nearest(i, {nodes[i].anc[q][1][t] : t \in 1..Len(nodes[i].anc[q][1])})
      C11Node(i) ==
        LET n == nodes[i] IN
        IF i > 1 /\ nodes[n.sp].kids[n.ci] # i THEN "Recorder:structure"
        ELSE IF n.par # (IF i = 1 THEN 0 ELSE n.sp) THEN "ParentIsListingNode"
        ELSE IF ~n.leaf /\ n.kids = <<>> THEN "ok"
        ELSE IF n.root # 1 THEN "RootReachable"
        ELSE IF n.fl # FirstLeaf(i) THEN "FirstLeaf"
        ELSE IF n.ll # LastLeaf(i) THEN "LastLeaf"
        ELSE IF n.nl # NextLeafOf(i) THEN "NextLeaf"
        ELSE IF n.pl # PrevLeafOf(i) THEN "PreviousLeaf"
        ELSE IF n.nsb # NextSib(i) THEN "NextSibling"
        ELSE IF n.psb # PrevSib(i) THEN "PreviousSibling"
        ELSE IF AncBad(i) THEN "SearchAncestor"
        ELSE "ok"
      endPos == PosOf(ptab, Len(inp))
      ExpLookup(q) ==
        LET pos == <<q.l, q.c>> IN
        IF PosLT(pos, <<1, 0>>) \/ PosLT(endPos, pos) THEN -3
        ELSE LET cand == {r \in 1..L : PosLE(pos, ExpEnd(r))} IN
             IF cand = {} THEN -3
             ELSE LET r == Min(cand) IN
                  IF ~q.inc /\ PosLT(pos, ExpStart(r)) THEN 0 ELSE leafIdx[r]
      badq == {j \in 1..Len(posq) : posq[j].got # ExpLookup(posq[j])}

      (* ---------------- C07 (strict versus recovering parser; aux = what the strict run did) ---------------- *)
      errIdx == {i \in 1..N : nodes[i].type \in {"error_node", "error_leaf"}}
      errCands == {Rank(i) : i \in {j \in errIdx : nodes[j].leaf}}
                  \cup {Rank(LastLeaf(i)) + 1 : i \in {j \in errIdx : ~nodes[j].leaf /\ HasLeaves(j)}}
      firstErr == leafIdx[Min({r \in errCands : r <= L})]
      C07Tree ==
        IF aux.sraised # (errIdx # {}) THEN "StrictRaisesIffRecoveredTreeHasError"
        ELSE IF ~aux.sraised /\ aux.sdump # aux.rdump THEN "TreesIdenticalWhenNoError"
        ELSE IF aux.sraised /\ {r \in errCands : r <= L} = {} THEN "FirstErrorExists"
        \* a DEDENT that triggers the error is a virtual token the tree omits (block convention): the error
        \* then sits at the leaf that follows the error node, at the same position
        ELSE IF aux.sraised /\ aux.stt # "DEDENT" /\ aux.sval # nodes[firstErr].val THEN "StrictErrorLeafIsFirstError:value"
        ELSE IF aux.sraised /\ aux.ss # nodes[firstErr].s THEN "StrictErrorLeafIsFirstError:position"
        ELSE "ok"

      (* ---------------- C19 (serialisation round trips; refactoring is a splice) ---------------- *)
      (* aux.rts = << [kind, nodes] >> : the tree after pickle / eval(dump(indent)) serialised like the original;  *)
      (* aux.dids = interned dump() of the original followed by those of eval(dump(indent)) for every indent style; *)
      (* aux.refs = << [sel (node indices, ascending, pairwise disjoint), strs, got] >> : Grammar.refactor results  *)
      badRt == {q \in 1..Len(aux.rts) : aux.rts[q].nodes # nodes}
      badDid == {q \in 1..Len(aux.dids) : aux.dids[q] # aux.dids[1]}
      StartOff(i) == Off(Rank(FirstLeaf(i)))
      StopOff(i) == EndOff(Rank(LastLeaf(i)))
      Splice(sel, strs) ==
        LET F[q \in 0..Len(sel)] ==      \* <<text so far, offset consumed>>
              IF q = 0 THEN << <<>>, 0 >>
              ELSE LET p == F[q - 1] IN
                   << p[1] \o SubSeq(inp, p[2] + 1, StartOff(sel[q])) \o strs[q], StopOff(sel[q]) >>
            r == F[Len(sel)]
        IN r[1] \o SubSeq(inp, r[2] + 1, Len(inp))
      badRef == {q \in 1..Len(aux.refs) : aux.refs[q].got # Splice(aux.refs[q].sel, aux.refs[q].strs)}
      C19Tree ==
        IF badRt # {} THEN "SameTreeAfter:" \o aux.rts[Min(badRt)].kind
        ELSE IF badDid # {} THEN "SameDumpAfterEvalDump"
        ELSE IF badRef # {} THEN "RefactorIsSplice"
        ELSE "ok"

      NodeClause(g, i) == CASE g = "C01" -> C01Node(i)
                            [] g = "C02" -> C02Node(i)
                            [] g = "C03" -> C03Node(i)
                            [] g = "C09" -> C09Node(i)
                            [] g = "C11" -> C11Node(i)
                            [] g = "C07" -> IF i = 1 THEN C07Tree ELSE "ok"
                            [] g = "C19" -> IF i = 1 THEN C19Tree ELSE "ok"
                            [] OTHER -> "ok"
      Verdict(g) ==
        LET bad == {i \in 1..N : NodeClause(g, i) # "ok"} IN
        IF bad # {} THEN <<NodeClause(g, Min(bad)), Min(bad)>>
        ELSE IF g = "C11" /\ badq # {} THEN <<"LeafForPosition", Min(badq)>>
        ELSE <<"ok", 0>>
  IN [g \in groups |-> Verdict(g)]

=============================================================================
