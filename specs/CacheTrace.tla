----------------------------- MODULE CacheTrace -----------------------------
(***************************************************************************)
(* A-level validation of what the REAL cache did (C16 / C17).              *)
(* A trace is the event list recorded while a Cache-spec history was       *)
(* replayed into parso with real files: Start(g,p,d), Write(p,c),          *)
(* Return(g,p,d,c) where c is the content whose tree the call returned     *)
(* ("RAISED:..." if it raised, "WRONGTREE" if the returned tree is not the *)
(* tree of its own code under grammar g), Crash.                           *)
(*   Transparent : a Return yields the tree of a content the file had      *)
(*                 between the call's Start and its Return;                *)
(*   NoForeign   : ... and of the call's own grammar and path;             *)
(*   NeverFails  : a call never raises, whatever was done to the cache.    *)
(***************************************************************************)
EXTENDS Naturals, Sequences, FiniteSets, TLC, Json

Batch == JsonDeserialize("batch.json")
Traces == Batch.traces
NT == Len(Traces)

RECURSIVE Run(_, _, _, _, _)
\* cur: path -> content ; seen: contents of the active call's path since Start ; ap: active call's path
Run(evs, k, cur, seen, ap) ==
  IF k > Len(evs) THEN <<"ok", 0>>
  ELSE LET e == evs[k] IN
       IF e.ev = "Start" THEN Run(evs, k + 1, cur, {cur[e.p]}, e.p)
       ELSE IF e.ev = "Write" THEN
            Run(evs, k + 1, [cur EXCEPT ![e.p] = e.c], IF e.p = ap THEN seen \cup {e.c} ELSE seen, ap)
       ELSE IF e.ev = "Crash" THEN Run(evs, k + 1, cur, {}, "")
       ELSE IF e.ev = "Cleanup" THEN
            \* C17 CleanupSparesInUse: e.files = << [age (days since last access), gone] >>
            IF \E i \in 1..Len(e.files) : e.files[i].gone /\ e.files[i].age < 30 THEN <<"CleanupSparesInUse", k>>
            ELSE Run(evs, k + 1, cur, seen, ap)
       ELSE \* Return
            IF e.c = "WRONGTREE" THEN <<"NoForeign", k>>
            ELSE IF e.c \notin {"a", "b", "c", "d"} THEN <<"NeverFails", k>>
            ELSE IF e.p # ap THEN <<"NoForeign:path", k>>
            ELSE IF e.c \notin seen THEN <<"Transparent", k>>
            \* C17 LaterSaveRepairs: a call marked `must` = "disk" has to be served from the repaired pickle
            ELSE IF e.must # "" /\ e.src # e.must THEN <<"LaterSaveRepairs", k>>
            ELSE Run(evs, k + 1, cur, {}, "")

VARIABLES tid, nacc, nrej
vars == <<tid, nacc, nrej>>
Init == tid = 1 /\ nacc = 0 /\ nrej = 0
Judge ==
  /\ tid <= NT
  /\ LET tr == Traces[tid]
         v == Run(tr.events, 1, [p \in {"p1", "p2"} |-> tr.init], {}, "")
     IN IF v[1] = "ok" THEN nacc' = nacc + 1 /\ nrej' = nrej
        ELSE PrintT(<<"REJECT", tr.id, "cache", v[1], v[2]>>) /\ nrej' = nrej + 1 /\ nacc' = nacc
  /\ tid' = tid + 1
Finish == /\ tid = NT + 1 /\ PrintT(<<"SUMMARY", nacc, nrej>>)
          /\ tid' = NT + 2 /\ UNCHANGED <<nacc, nrej>>
Next == Judge \/ Finish
Spec == Init /\ [][Next]_vars
=============================================================================
