------------------------------ MODULE Strings ------------------------------
(***************************************************************************)
(* Input generator, first stage: every string of length <= N over an       *)
(* alphabet of K character classes (one representative per class the       *)
(* tokenizer's regular expressions and branches distinguish; the harness   *)
(* maps class ids to characters, see harness/inputs.py ALPHABET).          *)
(* TLC enumerates the states (= the strings); the dump is replayed into    *)
(* the real tokenizer / parser and every observation is validated against  *)
(* TokenStream / Tree.                                                     *)
(***************************************************************************)
EXTENDS Naturals, Sequences
CONSTANTS K, N
VARIABLE s
Init == s = <<>>
Next == /\ Len(s) < N
        /\ \E c \in 1..K : s' = Append(s, c)
Spec == Init /\ [][Next]_s
=============================================================================
