------------------------------- MODULE Cache -------------------------------
(***************************************************************************)
(* B-spec + A-properties for C16 (cache transparency) and C17 (torn or     *)
(* corrupt cache files are misses).                                        *)
(*                                                                         *)
(* One action per step of the code path of Grammar.parse(path=p,           *)
(* cache=True, cache_path=d) in parso/grammar.py and parso/cache.py:       *)
(*   Start, Stat1 (load_module: file_io.get_last_modified),                *)
(*   MemLookup (parser_cache[g][p]; a stale memory entry falls through     *)
(*   WITHOUT consulting the disk), DiskStat (getmtime of the pickle),      *)
(*   DiskLoad (open + pickle.load, a separate step: the pickle may be      *)
(*   replaced or damaged in between), StatCT (the stat whose result        *)
(*   becomes the entry's change_time: BEFORE Read in the repaired code,    *)
(*   after it in the original), Read (file_io.read), Store (parse +        *)
(*   try_to_save_module -> _set_cache_item), DiskStore (open('wb') +       *)
(*   pickle.dump, may be torn by a crash), Return.                         *)
(* The environment writes files (each write is observable as a newer       *)
(* mtime), lets time pass, restarts the process (memory dropped), runs a   *)
(* whole parse in another process (own memory, shared disk), evicts        *)
(* memory entries, removes cache files, and damages pickle files.          *)
(*                                                                         *)
(* Constants StatBeforeRead / CompareChangeTime select the protocol: both  *)
(* TRUE is the protocol of the code after the C16 repair; with either      *)
(* FALSE TLC finds the stale-tree history (kept as a regression config).   *)
(***************************************************************************)
EXTENDS Naturals, Sequences, FiniteSets, TLC

CONSTANTS Paths, Grammars, Dirs, Contents, InitC, MaxClock, MaxCalls, MaxFaults,
          StatBeforeRead, CompareChangeTime, TolerantLoad, Hist,
          DiffModes, \* subset of BOOLEAN: may calls use diff_cache=True ?
          EnvSet     \* which environment actions are enabled: subset of {"Tick","Write","Restart","Evict","RemoveFile","Damage","OtherCall","Crash"}

None == [none |-> TRUE]
Key == Grammars \X Paths                      \* memory is keyed by (grammar, path) - not by cache dir
DKey == Dirs \X Grammars \X Paths

VARIABLES clock,       \* wall clock
          file,        \* [Paths -> [c, m]]            content and mtime of the source file
          mem,         \* [Key -> None | [t, ct]]      main process: cached tree t = <<g, p, c>>, change_time
          mem2,        \* the other process's memory
          disk,        \* [DKey -> None | [t, ct, m, ok]]  pickle: tree, stored change_time, file mtime, readable
          call,        \* the in-flight call of the main process
          ncalls, nfaults,
          seen,        \* contents the file had since the call started (for Transparent)
          result,      \* last returned [call, tree, seen] (checked by the A-properties) or None
          hist         \* action log (only when Hist)
vars == <<clock, file, mem, mem2, disk, call, ncalls, nfaults, seen, result, hist>>

Idle == [pc |-> "idle", g |-> CHOOSE x \in Grammars : TRUE, p |-> CHOOSE x \in Paths : TRUE,
         d |-> CHOOSE x \in Dirs : TRUE, pt |-> 0, ct |-> 0, content |-> CHOOSE x \in Contents : TRUE,
         loaded |-> None, diff |-> FALSE]
Log(e) == hist' = IF Hist THEN Append(hist, e) ELSE hist

Init ==
  /\ clock = 1
  /\ file = [p \in Paths |-> [c |-> InitC, m |-> 1]]
  /\ mem = [k \in Key |-> None] /\ mem2 = [k \in Key |-> None]
  /\ disk = [k \in DKey |-> None]
  /\ call = Idle /\ ncalls = 0 /\ nfaults = 0 /\ seen = {} /\ result = None /\ hist = <<>>

Tree(g, p, c) == <<g, p, c>>

(* ----------------------------- environment ----------------------------- *)
Tick == /\ clock < MaxClock /\ clock' = clock + 1 /\ Log(<<"Tick">>)
        /\ UNCHANGED <<file, mem, mem2, disk, call, ncalls, nfaults, seen, result>>

Write(p, c) ==      \* a save: new content, newer modification time
  /\ clock < MaxClock /\ c # file[p].c
  /\ clock' = clock + 1
  /\ file' = [file EXCEPT ![p] = [c |-> c, m |-> clock + 1]]
  /\ seen' = IF call.pc # "idle" /\ call.p = p THEN seen \cup {c} ELSE seen
  /\ Log(<<"Write", p, c>>)
  /\ UNCHANGED <<mem, mem2, disk, call, ncalls, nfaults, result>>

Restart ==          \* the main process ends and a new one starts: memory is gone, disk stays
  /\ call.pc = "idle" /\ mem # [k \in Key |-> None]
  /\ mem' = [k \in Key |-> None] /\ Log(<<"Restart">>)
  /\ UNCHANGED <<clock, file, mem2, disk, call, ncalls, nfaults, seen, result>>

Evict(g, p) ==      \* _set_cache_item's garbage collection (only ever removes entries)
  /\ call.pc = "idle" /\ mem[<<g, p>>] # None
  /\ mem' = [mem EXCEPT ![<<g, p>>] = None] /\ Log(<<"Evict", g, p>>)
  /\ UNCHANGED <<clock, file, mem2, disk, call, ncalls, nfaults, seen, result>>

RemoveFile(d, g, p) ==   \* clear_inactive_cache / a removed cache directory
  /\ disk[<<d, g, p>>] # None
  /\ disk' = [disk EXCEPT ![<<d, g, p>>] = None] /\ Log(<<"RemoveFile", d, g, p>>)
  /\ UNCHANGED <<clock, file, mem, mem2, call, ncalls, nfaults, seen, result>>

Damage(d, g, p) ==       \* C17: whatever a crash / full disk / concurrent writer left: not unpicklable
  /\ nfaults < MaxFaults /\ disk[<<d, g, p>>] # None /\ disk[<<d, g, p>>].ok
  /\ nfaults' = nfaults + 1
  /\ disk' = [disk EXCEPT ![<<d, g, p>>] = [@ EXCEPT !.ok = FALSE, !.m = clock]]
  /\ Log(<<"Damage", d, g, p>>)
  /\ UNCHANGED <<clock, file, mem, mem2, call, ncalls, seen, result>>

(* a complete parse in another process (own memory mem2, same disk), executed atomically *)
OtherLookup(g, p, d) ==
  LET pt == file[p].m
      me == mem2[<<g, p>>]
      de == disk[<<d, g, p>>]
  IN IF me # None /\ pt <= me.ct THEN [src |-> "mem", t |-> me.t, ct |-> me.ct]
     ELSE IF me = None /\ de # None /\ pt <= de.m /\ de.ok /\ (CompareChangeTime => pt <= de.ct)
          THEN [src |-> "disk", t |-> de.t, ct |-> de.ct]
     ELSE [src |-> "parse", t |-> Tree(g, p, file[p].c), ct |-> file[p].m]
OtherCall(g, p, d) ==
  /\ ncalls < MaxCalls /\ ncalls' = ncalls + 1
  /\ LET r == OtherLookup(g, p, d) IN
       /\ mem2' = [mem2 EXCEPT ![<<g, p>>] = [t |-> r.t, ct |-> r.ct]]
       /\ disk' = IF r.src = "parse"
                  THEN [disk EXCEPT ![<<d, g, p>>] = [t |-> r.t, ct |-> r.ct, m |-> clock, ok |-> TRUE]]
                  ELSE disk
  /\ Log(<<"OtherCall", g, p, d>>)
  /\ UNCHANGED <<clock, file, mem, call, nfaults, seen, result>>

(* ------------------------------ the call ------------------------------ *)
(* df: the call also passes diff_cache=True (incremental re-parse against the in-memory entry) *)
Start(g, p, d, df) ==
  /\ call.pc = "idle" /\ ncalls < MaxCalls /\ ncalls' = ncalls + 1
  /\ call' = [Idle EXCEPT !.pc = "stat1", !.g = g, !.p = p, !.d = d, !.diff = df]
  /\ seen' = {file[p].c} /\ result' = None
  /\ Log(<<"Start", g, p, d, df>>)
  /\ UNCHANGED <<clock, file, mem, mem2, disk, nfaults>>

Step(name) == /\ Log(<<name>>) /\ UNCHANGED <<clock, file, mem2, ncalls, nfaults, seen>>
Goto(l) == call' = [call EXCEPT !.pc = l]
AfterMiss == IF StatBeforeRead THEN "statct" ELSE "read"
ReturnTree(t) ==
  /\ call' = Idle
  /\ result' = [g |-> call.g, p |-> call.p, t |-> t, seen |-> seen]
RetLog(name, t) == hist' = IF Hist THEN hist \o << <<name>>, <<"Return", t>> >> ELSE hist

Stat1 ==
  /\ call.pc = "stat1"
  /\ call' = [call EXCEPT !.pc = "memlookup", !.pt = file[call.p].m]
  /\ Step("Stat1") /\ UNCHANGED <<mem, disk, result>>

MemLookup ==
  /\ call.pc = "memlookup"
  /\ LET e == mem[<<call.g, call.p>>] IN
     IF e # None
     THEN IF call.pt <= e.ct THEN ReturnTree(e.t) /\ RetLog("MemLookup", e.t)
          ELSE Goto(AfterMiss) /\ UNCHANGED result /\ Log(<<"MemLookup">>)
     ELSE Goto("diskstat") /\ UNCHANGED result /\ Log(<<"MemLookup">>)
  /\ UNCHANGED <<clock, file, mem2, ncalls, nfaults, seen, mem, disk>>

DiskStat ==
  /\ call.pc = "diskstat"
  /\ LET e == disk[<<call.d, call.g, call.p>>] IN
     IF e = None \/ call.pt > e.m THEN Goto(AfterMiss) ELSE Goto("diskload")
  /\ Step("DiskStat") /\ UNCHANGED <<mem, disk, result>>

DiskLoad ==
  /\ call.pc = "diskload"
  /\ LET e == disk[<<call.d, call.g, call.p>>] IN
     IF e = None THEN Goto(AfterMiss) /\ UNCHANGED <<mem, result>> /\ Log(<<"DiskLoad">>)   \* FileNotFoundError: a miss
     ELSE IF ~e.ok THEN
          (IF TolerantLoad THEN Goto(AfterMiss) /\ UNCHANGED <<mem, result>> /\ Log(<<"DiskLoad">>)  \* damaged: a miss
           ELSE call' = Idle /\ result' = [g |-> call.g, p |-> call.p, t |-> <<"RAISED">>, seen |-> seen]
                /\ UNCHANGED mem /\ RetLog("DiskLoad", <<"RAISED">>))
     ELSE IF CompareChangeTime /\ call.pt > e.ct THEN Goto(AfterMiss) /\ UNCHANGED <<mem, result>> /\ Log(<<"DiskLoad">>)
     ELSE /\ mem' = [mem EXCEPT ![<<call.g, call.p>>] = [t |-> e.t, ct |-> e.ct]]
          /\ ReturnTree(e.t) /\ RetLog("DiskLoad", e.t)
  /\ UNCHANGED <<clock, file, mem2, ncalls, nfaults, seen, disk>>

StatCT ==    \* the stat that becomes the entry's change_time
  /\ call.pc = "statct"
  /\ call' = [call EXCEPT !.pc = IF StatBeforeRead THEN "read" ELSE "store", !.ct = file[call.p].m]
  /\ Step("StatCT") /\ UNCHANGED <<mem, disk, result>>

Read ==
  /\ call.pc = "read"
  /\ call' = [call EXCEPT !.pc = IF StatBeforeRead THEN "store" ELSE "statct", !.content = file[call.p].c]
  /\ Step("Read") /\ UNCHANGED <<mem, disk, result>>

Store ==     \* parse (or, with diff_cache, update the in-memory module in place), memory store
  /\ call.pc = "store"
  /\ LET e == mem[<<call.g, call.p>>] IN
     IF call.diff /\ e # None /\ e.t = Tree(call.g, call.p, call.content)
     THEN \* diff_cache: old_lines == lines -> the cached module is returned as it is, nothing is saved
          /\ ReturnTree(e.t) /\ RetLog("Store", e.t)
          /\ UNCHANGED <<clock, file, mem2, ncalls, nfaults, seen, mem, disk>>
     ELSE /\ mem' = [mem EXCEPT ![<<call.g, call.p>>] = [t |-> Tree(call.g, call.p, call.content), ct |-> call.ct]]
          /\ Goto("diskstore")
          /\ Step("Store") /\ UNCHANGED <<disk, result>>

DiskStore ==
  /\ call.pc = "diskstore"
  /\ disk' = [disk EXCEPT ![<<call.d, call.g, call.p>>] =
                [t |-> Tree(call.g, call.p, call.content), ct |-> call.ct, m |-> clock, ok |-> TRUE]]
  /\ ReturnTree(Tree(call.g, call.p, call.content))
  /\ RetLog("DiskStore", Tree(call.g, call.p, call.content))
  /\ UNCHANGED <<clock, file, mem2, ncalls, nfaults, seen, mem>>

CrashInStore ==    \* the process dies while writing the pickle: a torn file, memory gone
  /\ call.pc = "diskstore" /\ nfaults < MaxFaults /\ nfaults' = nfaults + 1
  /\ disk' = [disk EXCEPT ![<<call.d, call.g, call.p>>] =
                [t |-> Tree(call.g, call.p, call.content), ct |-> call.ct, m |-> clock, ok |-> FALSE]]
  /\ call' = Idle /\ mem' = [k \in Key |-> None] /\ result' = None
  /\ Log(<<"CrashInStore">>)
  /\ UNCHANGED <<clock, file, mem2, ncalls, seen>>

CallStep == Stat1 \/ MemLookup \/ DiskStat \/ DiskLoad \/ StatCT \/ Read \/ Store \/ DiskStore
Env == \/ "Tick" \in EnvSet /\ Tick
       \/ "Restart" \in EnvSet /\ Restart
       \/ "Write" \in EnvSet /\ \E p \in Paths, c \in Contents : Write(p, c)
       \/ "Evict" \in EnvSet /\ \E g \in Grammars, p \in Paths : Evict(g, p)
       \/ \E d \in Dirs, g \in Grammars, p \in Paths :
             \/ "RemoveFile" \in EnvSet /\ RemoveFile(d, g, p)
             \/ "Damage" \in EnvSet /\ Damage(d, g, p)
             \/ "OtherCall" \in EnvSet /\ OtherCall(g, p, d)
Done == ncalls = MaxCalls /\ call.pc = "idle"
Next == ~Done /\ (CallStep \/ ("Crash" \in EnvSet /\ CrashInStore) \/ Env \/ \E g \in Grammars, p \in Paths, d \in Dirs, df \in DiffModes : Start(g, p, d, df))
Emit == (Hist /\ Done) => PrintT(<<"HIST", hist>>)
Spec == Init /\ [][Next]_vars

(* ----------------------------- A-properties ----------------------------- *)
(* C16 Transparent: the returned tree is the tree of a content the file had during the call -         *)
(* hence of the current content when nothing was written meanwhile.                                   *)
Transparent == result # None /\ result.t # <<"RAISED">> => result.t[3] \in result.seen
(* C16 NoForeign: never a tree of another grammar or path *)
NoForeign == result # None /\ result.t # <<"RAISED">> => result.t[1] = result.g /\ result.t[2] = result.p
(* C17 NeverFails: damaged cache files never make the call raise *)
NeverFails == result # None => result.t # <<"RAISED">>
(* memory entries are never newer than what they hold (used by the repaired protocol) *)
TypeOK == clock \in 1..MaxClock /\ ncalls \in 0..MaxCalls
=============================================================================
