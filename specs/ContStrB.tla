------------------------------ MODULE ContStrB ------------------------------
(***************************************************************************)
(* B-spec of the string sub-machine of parso.python.tokenize.tokenize_lines *)
(* (single-quoted, triple-quoted and continued strings: contstr, endprog,   *)
(* contstr_start), one physical line per step like the code.                *)
(*                                                                         *)
(* A line is a sequence of atoms and a terminator:                          *)
(*   q d (one quote character)  t (a name character)  w (a blank)           *)
(*   eq ed (backslash + quote)  o c (round brackets)                        *)
(*   terminator N (newline) or BN (backslash + newline)                     *)
(* so triple quotes are three q / d atoms in a row and the model itself has *)
(* to decide - like the regular expressions do - whether a quote opens a    *)
(* triple-quoted string, an ordinary one, or nothing.                       *)
(*                                                                         *)
(* Transcribed decisions:                                                  *)
(*  - three equal quotes start a triple-quoted string; it ends at the first *)
(*    unescaped run of three such quotes, on this line (STRING) or on a     *)
(*    later one (the lines in between are accumulated in contstr);          *)
(*  - otherwise a quote starts an ordinary string that ends at the next     *)
(*    unescaped equal quote on the line; when the line ends first, the      *)
(*    string continues on the next line only if the line ends in a          *)
(*    backslash, else the quote alone is an ERRORTOKEN;                     *)
(*  - once an ordinary string is continued, every following line that has   *)
(*    no closing quote is swallowed whole, backslash or not;                *)
(*  - a backslash before a quote outside a string is an ERRORTOKEN of its   *)
(*    own and the quote then starts a string;                               *)
(*  - the end of input inside a string turns everything accumulated into    *)
(*    one ERRORTOKEN; the next tokens are then DEDENTs and ENDMARKER;       *)
(*  - a string at the start of a logical line takes part in indentation     *)
(*    like any token; the first token after a closed multi-line string does *)
(*    not.                                                                 *)
(*                                                                         *)
(* Checked by TLC over all line sequences up to the bounds:                 *)
(*   Accounted   every character fed is in a token, in contstr or in the    *)
(*               pending prefix - nothing lost, nothing twice               *)
(*   StringShape a STRING token begins with a quote (run) and ends with the *)
(*               same quote (run)                                           *)
(*   ErrorAtEnd  an ERRORTOKEN that contains a line break is followed only  *)
(*               by DEDENT / ENDMARKER                                      *)
(*   EnvOk       the layout tokens obey TokEnv                              *)
(* Binding: as for FStringB (Predict against real token streams, and replay *)
(* of simulated runs), in checks/C09.py.                                    *)
(***************************************************************************)
EXTENDS Naturals, Sequences, TLC, TokEnv, Json

CB == JsonDeserialize("cb.json")   \* maxlen, maxlines, hist, maxind, mode, traces
Atoms == {"q", "d", "t", "w", "eq", "ed", "o", "c"}
Terms == {"N", "BN"}
Chars(a) == CASE a = "q" -> <<"'">> [] a = "d" -> <<"\"">> [] a = "t" -> <<"t">> [] a = "w" -> <<" ">>
              [] a = "eq" -> <<"\\", "'">> [] a = "ed" -> <<"\\", "\"">> [] a = "o" -> <<"(">> [] a = "c" -> <<")">>
TermChars(t) == IF t = "N" THEN <<"\n">> ELSE <<"\\", "\n">>
RECURSIVE Flat(_)
Flat(ls) == IF ls = <<>> THEN <<>> ELSE Chars(Head(ls)) \o Flat(Tail(ls))
Width(ls) == Len(Flat(ls))
Top(s) == s[Len(s)]
QChar(kind) == IF kind \in {"q3", "q1"} THEN "q" ELSE "d"

RECURSIVE Dedent(_, _, _)
Dedent(ind, start, ln) ==
  IF start >= Top(ind) THEN << <<>>, ind >>
  ELSE IF start > ind[Len(ind) - 1] THEN << << <<"ERROR_DEDENT", <<>>, ln, start, <<>> >> >>, [ind EXCEPT ![Len(ind)] = start] >>
  ELSE LET r == Dedent(SubSeq(ind, 1, Len(ind) - 1), start, ln)
       IN << << <<"DEDENT", <<>>, ln, start, <<>> >> >> \o r[1], r[2] >>

(* index of the atom after the closing quote(s) of a string of the given kind, searching from atom j; 0 = none *)
RECURSIVE CloseAt(_, _, _)
CloseAt(ls, j, kind) ==
  IF j > Len(ls) THEN 0
  ELSE LET qc == QChar(kind) IN
    IF ls[j] = qc
    THEN IF kind \in {"q1", "d1"} THEN j + 1
         ELSE IF j + 2 <= Len(ls) /\ ls[j + 1] = qc /\ ls[j + 2] = qc THEN j + 3
         ELSE CloseAt(ls, j + 1, kind)
    ELSE CloseAt(ls, j + 1, kind)              \* any other atom, escape pairs included, is content

RECURSIVE SkipW(_, _)
SkipW(ls, j) == IF j <= Len(ls) /\ ls[j] = "w" THEN SkipW(ls, j + 1) ELSE j
RECURSIVE NameEnd(_, _)
NameEnd(ls, j) == IF j <= Len(ls) /\ ls[j] = "t" THEN NameEnd(ls, j + 1) ELSE j
Blanks(n) == [i \in 1..n |-> " "]

RECURSIVE Run(_, _, _, _, _)
(* i = next atom, col = its column; term = the line's terminator; returns the state after the whole line *)
Run(ls, term, i, col, s) ==
  LET k == SkipW(ls, i)
      nws == k - i
      start == col + nws
      prefix == s.addp \o Blanks(nws)
  IN
  IF k > Len(ls)
  THEN (* the terminator *)
       IF term = "BN"
       THEN [s EXCEPT !.addp = prefix \o TermChars(term)]
       ELSE IF ~s.newLine /\ s.paren = 0
            THEN [s EXCEPT !.out = Append(@, <<"NEWLINE", <<"\n">>, s.lnum, start, prefix>>), !.addp = <<>>, !.newLine = TRUE]
            ELSE [s EXCEPT !.addp = prefix \o <<"\n">>, !.newLine = TRUE]
  ELSE
  LET a == ls[k]
      layoutOn == s.newLine /\ s.paren = 0
      indTok == IF layoutOn /\ start > Top(s.indents) THEN << <<"INDENT", <<>>, s.lnum, start, <<>> >> >> ELSE <<>>
      ind1 == IF indTok # <<>> THEN Append(s.indents, start) ELSE s.indents
      ded == IF layoutOn THEN Dedent(ind1, start, s.lnum) ELSE << <<>>, ind1 >>
      s1 == [s EXCEPT !.newLine = FALSE, !.indents = ded[2], !.out = @ \o indTok \o ded[1], !.addp = <<>>]
      Tok(ty, chars) == <<ty, chars, s.lnum, start, prefix>>
  IN
  IF a = "t"
  THEN LET e == NameEnd(ls, k) IN
       Run(ls, term, e, start + (e - k), [s1 EXCEPT !.out = Append(@, Tok("NAME", Flat(SubSeq(ls, k, e - 1))))])
  ELSE IF a = "o"
  THEN Run(ls, term, k + 1, start + 1, [s1 EXCEPT !.out = Append(@, Tok("OP", Chars(a))), !.paren = @ + 1])
  ELSE IF a = "c"
  THEN Run(ls, term, k + 1, start + 1,
           [s1 EXCEPT !.out = Append(@, Tok("OP", Chars(a))), !.paren = IF @ > 0 THEN @ - 1 ELSE 0])
  ELSE IF a \in {"eq", "ed"}
  THEN (* a backslash that starts no token: ERRORTOKEN; then the quote is looked at on its own *)
       Run([ls EXCEPT ![k] = IF a = "eq" THEN "q" ELSE "d"], term, k, start + 1,
           [s1 EXCEPT !.out = Append(@, Tok("ERRORTOKEN", <<"\\">>))])
  ELSE (* a quote *)
  LET triple == k + 2 <= Len(ls) /\ ls[k + 1] = a /\ ls[k + 2] = a
      kind == IF triple THEN (IF a = "q" THEN "q3" ELSE "d3") ELSE (IF a = "q" THEN "q1" ELSE "d1")
      e == CloseAt(ls, IF triple THEN k + 3 ELSE k + 1, kind)
  IN
  IF e > 0
  THEN Run(ls, term, e, start + Width(SubSeq(ls, k, e - 1)),
           [s1 EXCEPT !.out = Append(@, Tok("STRING", Flat(SubSeq(ls, k, e - 1))))])
  ELSE IF triple \/ term = "BN"
  THEN (* continued on the next line: the rest of the line, terminator included, is accumulated *)
       [s1 EXCEPT !.ckind = kind, !.cont = Flat(SubSeq(ls, k, Len(ls))) \o TermChars(term), !.cline = s.lnum,
                  !.cstart = start, !.cpre = prefix]
  ELSE Run(ls, term, k + 1, start + 1, [s1 EXCEPT !.out = Append(@, Tok("ERRORTOKEN", Chars(a)))])

Line(ls, term, s0) ==
  LET s == [s0 EXCEPT !.out = <<>>, !.lnum = @ + 1] IN
  IF s.ckind = "" THEN Run(ls, term, 1, 0, s)
  ELSE LET e == CloseAt(ls, 1, s.ckind) IN
       IF e = 0 THEN [s EXCEPT !.cont = @ \o Flat(ls) \o TermChars(term)]
       ELSE Run(ls, term, e, Width(SubSeq(ls, 1, e - 1)),
                [s EXCEPT !.out = <<<<"STRING", s.cont \o Flat(SubSeq(ls, 1, e - 1)), s.cline, s.cstart, s.cpre>>>>,
                          !.ckind = "", !.cont = <<>>])

S0 == [ckind |-> "", cont |-> <<>>, cline |-> 0, cstart |-> 0, cpre |-> <<>>, paren |-> 0, newLine |-> TRUE, addp |-> <<>>,
       indents |-> <<0>>, out |-> <<>>, lnum |-> 0]
EndTokens(s) ==
  (IF s.ckind # "" THEN << <<"ERRORTOKEN", s.cont, s.cline, s.cstart, s.cpre>> >> ELSE <<>>)
  \o [i \in 1..(Len(s.indents) - 1) |-> <<"DEDENT", <<>>, s.lnum + 1, 0, <<>> >>]
  \o << <<"ENDMARKER", <<>>, s.lnum + 1, 0, s.addp>> >>

RECURSIVE Predict(_, _, _)
(* lines = << <<atoms, term>>, ... >> *)
Predict(lines, s, acc) ==
  IF lines = <<>> THEN acc \o EndTokens(s)
  ELSE LET s2 == Line(Head(lines)[1], Head(lines)[2], s) IN Predict(Tail(lines), s2, acc \o s2.out)

(* ------------------------------------------------ exploration ------------------------------------------------- *)
VARIABLES st, nlines, nfed, ntiled, env, envBad, sawNL, badAfterNL, hist, tid, nacc, nrej
vars == <<st, nlines, nfed, ntiled, env, envBad, sawNL, badAfterNL, hist, tid, nacc, nrej>>
LineSet == UNION {[1..n -> Atoms] : n \in 0..CB.maxlen}

KindOf(tok) == IF tok[1] \in {"INDENT", "DEDENT", "ERROR_DEDENT", "NEWLINE", "ENDMARKER"} THEN tok[1]
               ELSE IF tok[1] = "ERRORTOKEN" /\ tok[2] # <<>> /\ tok[2][Len(tok[2])] = "\n" THEN "ERRORTOKEN_NL" ELSE "OTHER"
RECURSIVE Monitor(_, _, _)
Monitor(e, toks, bad) ==
  IF toks = <<>> THEN <<e, bad>>
  ELSE LET k == KindOf(toks[1]) IN Monitor(After(e, k), Tail(toks), bad \/ ~Allows(e, k, CB.maxind))
RECURSIVE TiledLen(_)
TiledLen(toks) == IF toks = <<>> THEN 0 ELSE Len(Head(toks)[5]) + Len(Head(toks)[2]) + TiledLen(Tail(toks))

Init == /\ st = S0 /\ nlines = 0 /\ nfed = 0 /\ ntiled = 0 /\ env = EnvInit /\ envBad = FALSE /\ sawNL = FALSE
        /\ badAfterNL = FALSE /\ hist = <<>> /\ tid = 1 /\ nacc = 0 /\ nrej = 0

Feed(l, t) ==
  /\ CB.mode = "explore" /\ nlines < CB.maxlines
  /\ LET s2 == Line(l, t, st) IN
     /\ st' = s2
     /\ ntiled' = ntiled + TiledLen(s2.out)
     /\ LET m == Monitor(env, s2.out, envBad) IN env' = m[1] /\ envBad' = m[2]
  /\ nfed' = nfed + Width(l) + Len(TermChars(t))
  /\ nlines' = nlines + 1
  /\ hist' = IF CB.hist THEN Append(hist, <<l, t>>) ELSE hist
  /\ UNCHANGED <<sawNL, badAfterNL, tid, nacc, nrej>>

Close ==
  /\ CB.mode = "explore" /\ nlines > 0 /\ nlines <= CB.maxlines
  /\ LET e == EndTokens(st) IN
     /\ LET m == Monitor(env, e, envBad) IN env' = m[1] /\ envBad' = m[2]
     /\ ntiled' = ntiled + TiledLen(e)
     /\ sawNL' = (st.ckind # "")
     /\ badAfterNL' = \E i \in 2..Len(e) : st.ckind # "" /\ e[i][1] \notin {"DEDENT", "ENDMARKER"}
  /\ (CB.hist => PrintT(<<"CRUN", hist, Predict(hist, S0, <<>>)>>))
  /\ nlines' = CB.maxlines + 1
  /\ st' = [st EXCEPT !.cont = <<>>, !.ckind = "", !.addp = <<>>, !.out = <<>>]
  /\ UNCHANGED <<nfed, hist, tid, nacc, nrej>>

Traces == CB.traces
NT == Len(Traces)
Verdict(tr) ==
  LET p == Predict(tr.lines, S0, <<>>) IN
  IF Len(p) # Len(tr.toks) THEN "TokenCount"
  ELSE IF \E i \in 1..Len(p) : p[i][1] # tr.toks[i][1] THEN "TokenType"
  ELSE IF \E i \in 1..Len(p) : p[i][2] # tr.toks[i][2] THEN "TokenString"
  ELSE IF \E i \in 1..Len(p) : p[i][3] # tr.toks[i][3] \/ p[i][4] # tr.toks[i][4] THEN "TokenPosition"
  ELSE IF \E i \in 1..Len(p) : p[i][5] # tr.toks[i][5] THEN "TokenPrefix"
  ELSE "ok"
Judge ==
  /\ CB.mode = "trace" /\ tid <= NT
  /\ LET v == Verdict(Traces[tid]) IN
     IF v = "ok" THEN nacc' = nacc + 1 /\ nrej' = nrej
     ELSE PrintT(<<"REJECT", Traces[tid].id, "contstrb", v, 0>>) /\ nrej' = nrej + 1 /\ nacc' = nacc
  /\ tid' = tid + 1
  /\ UNCHANGED <<st, nlines, nfed, ntiled, env, envBad, sawNL, badAfterNL, hist>>
Finish ==
  /\ CB.mode = "trace" /\ tid = NT + 1 /\ PrintT(<<"SUMMARY", nacc, nrej>>) /\ tid' = NT + 2
  /\ UNCHANGED <<st, nlines, nfed, ntiled, env, envBad, sawNL, badAfterNL, hist, nacc, nrej>>

Next == (\E l \in LineSet, t \in Terms : Feed(l, t)) \/ Close \/ Judge \/ Finish
Spec == Init /\ [][Next]_vars

(* ------------------------------------------------- properties ------------------------------------------------- *)
Accounted == ntiled + Len(st.cont) + (IF st.ckind # "" THEN Len(st.cpre) ELSE 0) + Len(st.addp) = nfed
QuoteRun(chars) == IF Len(chars) >= 6 /\ chars[1] = chars[2] /\ chars[2] = chars[3] THEN 3 ELSE 1
StringShape ==
  \A i \in 1..Len(st.out) : st.out[i][1] = "STRING" =>
     LET c == st.out[i][2] n == QuoteRun(c) IN
     /\ Len(c) >= 2 * n /\ c[1] \in {"'", "\""}
     /\ \A j \in 1..n : c[j] = c[1] /\ c[Len(c) + 1 - j] = c[1]
ErrorAtEnd == ~badAfterNL
(* a string start is remembered exactly while something is accumulated *)
ContConsistent == (st.ckind = "") = (st.cont = <<>>)
EnvOk == ~envBad
=============================================================================
