------------------------------- MODULE SemCtx -------------------------------
(***************************************************************************)
(* Context-tracking program generator for C12 / C14: a program is a stack   *)
(* of enclosing constructs (at most Depth frames) around one statement.     *)
(* TLC enumerates every (context stack, statement) pair; checks/_semctx.py  *)
(* renders them from templates.  Which of them are valid is decided by the  *)
(* reference interpreters, not here.                                        *)
(***************************************************************************)
EXTENDS Naturals, Sequences, TLC
CONSTANTS Depth, NStmt
Frames == {"def", "asyncdef", "class", "for", "while", "try", "finally", "with", "if", "lambda", "listcomp",
           "genexp", "asyncfor", "except"}
VARIABLES ctx, stmt
Init == ctx = <<>> /\ stmt = 0
Push == /\ stmt = 0 /\ Len(ctx) < Depth
        /\ \E f \in Frames : ctx' = Append(ctx, f)
        /\ UNCHANGED stmt
Choose == /\ stmt = 0 /\ \E s \in 1..NStmt : stmt' = s
          /\ UNCHANGED ctx
Next == Push \/ Choose
Spec == Init /\ [][Next]_<<ctx, stmt>>
=============================================================================
