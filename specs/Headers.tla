------------------------------ MODULE Headers ------------------------------
(***************************************************************************)
(* Generator for the decoding half of C15: every abstract two-line file    *)
(* header, followed by an optional THIRD line that mentions an encoding    *)
(* and must be ignored whatever the line-break style (PEP 263 looks at two *)
(* lines).  A line is [kind, enc]; TLC enumerates all combinations (the    *)
(* states are dumped and rendered to several byte strings each by          *)
(* checks/C15.py); Lines.HeaderEncoding is the PEP 263 decision for them.  *)
(***************************************************************************)
EXTENDS Naturals, TLC
Kinds == {"none", "blank", "comment", "cookie", "code", "codecookie", "strcookie"}
Encs == {"utf-8", "latin-1", "ascii", "iso-8859-15", "utf8", "no-such-codec", "utf-8-unix", "Latin_1-dos", "iso-8859-10"}
LineClasses == {[kind |-> k, enc |-> ""] : k \in {"none", "blank", "comment", "code"}}
               \cup {[kind |-> k, enc |-> e] : k \in {"cookie", "codecookie", "strcookie"}, e \in Encs}
Third == {[kind |-> "none", enc |-> ""], [kind |-> "cookie", enc |-> "latin-1"],
          [kind |-> "codecookie", enc |-> "no-such-codec"], [kind |-> "strcookie", enc |-> "latin-1"]}
VARIABLES l1, l2, l3, bom, body
Init == /\ l1 \in LineClasses /\ l2 \in LineClasses /\ l3 \in Third /\ bom \in BOOLEAN
        /\ body \in {"ascii", "utf8", "latin1", "high"}
        /\ (l1.kind = "none" => l2.kind = "none")
        /\ (l2.kind = "none" => l3.kind = "none")
Next == UNCHANGED <<l1, l2, l3, bom, body>>
Spec == Init /\ [][Next]_<<l1, l2, l3, bom, body>>
=============================================================================
