----------------------------- MODULE FlowMatrix -----------------------------
(***************************************************************************)
(* Generator for C14 (scope iteration): a statement of interest (return,   *)
(* raise, yield, def, class, import ...) placed inside one or two nested    *)
(* flow containers inside a function.  parso's helpers must see it exactly  *)
(* when CPython's AST attributes it to the function.                        *)
(***************************************************************************)
EXTENDS Naturals, TLC
Containers == {"if", "else", "elif", "for", "forelse", "while", "try", "except", "tryelse", "finally", "with",
               "asyncwith", "asyncfor", "match"}
Stmts == {"return", "returnval", "raise", "yield", "yieldfrom", "await", "def", "asyncdef", "class", "import", "from",
          "lambda", "docstring", "decorated", "wordsintext"}
Funcs == {"def", "asyncdef", "method"}
VARIABLES f, c1, c2, s
Init == f \in Funcs /\ c1 \in Containers /\ c2 \in Containers \cup {"none"} /\ s \in Stmts
Next == UNCHANGED <<f, c1, c2, s>>
Spec == Init /\ [][Next]_<<f, c1, c2, s>>
=============================================================================
