------------------------------ MODULE Threads ------------------------------
(***************************************************************************)
(* C18: parsing is a pure function of its arguments - isolated, reentrant, *)
(* thread-safe.                                                            *)
(*                                                                         *)
(* Each thread runs  load_grammar(v) ; parse ; iter_errors  through the    *)
(* shared memo tables.  Actions are the accesses to shared state:          *)
(*   lg_lookup      _loaded_grammars[path]          (parso/grammar.py)     *)
(*   lg_create      PythonGrammar(...): generate the tables (private)      *)
(*   lg_setdefault  _loaded_grammars.setdefault(path, grammar): the first  *)
(*                  publisher wins and every caller uses the winner        *)
(*   tc_lookup / tc_create / tc_store   _token_collection_cache: a plain   *)
(*                  assignment (last writer wins, equivalent value)        *)
(* followed by K private steps (tokens added to the call's own parser      *)
(* stack, leaves visited by the call's own normalizer).                    *)
(* Scheduling is context-bounded: at most MaxPre preemptions (a switch     *)
(* away from a thread that could still run); TLC explores ALL such         *)
(* interleavings and prints every complete schedule, which the harness     *)
(* imposes on real threads (harness/sched.py).                             *)
(***************************************************************************)
EXTENDS Naturals, Sequences, FiniteSets, TLC
CONSTANTS T, K, MaxPre, Versions      \* Versions: [T -> version id] which grammar each thread loads
VARIABLES pc, mine, loaded, tokc, writes, cur, pre, sched
vars == <<pc, mine, loaded, tokc, writes, cur, pre, sched>>
VSet == {Versions[t] : t \in T}
Init == /\ pc = [t \in T |-> "lg_lookup"] /\ mine = [t \in T |-> 0]
        /\ loaded = [v \in VSet |-> 0] /\ tokc = [v \in VSet |-> 0]
        /\ writes = [g |-> 0, c |-> 0] /\ cur = 0 /\ pre = 0 /\ sched = <<>>
Done(t) == pc[t] = "done"
MayRun(t) == ~Done(t) /\ (IF cur = 0 THEN TRUE ELSE (cur = t \/ Done(cur) \/ pre < MaxPre))
Switch(t) == /\ cur' = t
             /\ pre' = IF cur = 0 THEN pre ELSE IF cur # t /\ ~Done(cur) THEN pre + 1 ELSE pre
             /\ sched' = Append(sched, t)
Goto(t, l) == pc' = [pc EXCEPT ![t] = l]
Tok(i) == "tok" \o ToString(i)
Step(t) ==
  LET v == Versions[t] IN
  /\ MayRun(t) /\ Switch(t)
  /\ CASE pc[t] = "lg_lookup" ->
            IF loaded[v] # 0 THEN mine' = [mine EXCEPT ![t] = loaded[v]] /\ Goto(t, "tc_lookup") /\ UNCHANGED <<loaded, tokc, writes>>
            ELSE Goto(t, "lg_create") /\ UNCHANGED <<mine, loaded, tokc, writes>>
       [] pc[t] = "lg_create" -> mine' = [mine EXCEPT ![t] = t] /\ Goto(t, "lg_setdefault") /\ UNCHANGED <<loaded, tokc, writes>>
       [] pc[t] = "lg_setdefault" ->
            /\ loaded' = [loaded EXCEPT ![v] = IF @ = 0 THEN mine[t] ELSE @]
            /\ writes' = IF loaded[v] = 0 THEN [writes EXCEPT !.g = @ + 1] ELSE writes
            /\ mine' = [mine EXCEPT ![t] = loaded'[v]]
            /\ Goto(t, "tc_lookup") /\ UNCHANGED tokc
       [] pc[t] = "tc_lookup" -> Goto(t, IF tokc[v] # 0 THEN Tok(1) ELSE "tc_create") /\ UNCHANGED <<mine, loaded, tokc, writes>>
       [] pc[t] = "tc_create" -> Goto(t, "tc_store") /\ UNCHANGED <<mine, loaded, tokc, writes>>
       [] pc[t] = "tc_store" ->
            /\ tokc' = [tokc EXCEPT ![v] = t] /\ writes' = [writes EXCEPT !.c = @ + 1] /\ Goto(t, Tok(1)) /\ UNCHANGED <<mine, loaded>>
       [] OTHER ->
            LET k == CHOOSE i \in 1..K : pc[t] = Tok(i) IN
            /\ Goto(t, IF k = K THEN "done" ELSE Tok(k + 1)) /\ UNCHANGED <<mine, loaded, tokc, writes>>
Next == \E t \in T : Step(t)
Spec == Init /\ [][Next]_vars

(* design-level claims *)
GrammarPublishedOncePerVersion == writes.g <= Cardinality(VSet)
AllUseWinner == \A t \in T : pc[t] \notin {"lg_lookup", "lg_create", "lg_setdefault"} => mine[t] = loaded[Versions[t]]
TokCollWritesOnlyDuringFirstUse == writes.c <= Cardinality(T)
AllDone == \A t \in T : Done(t)
Emit == AllDone => PrintT(<<"SCHED", sched>>)
=============================================================================
