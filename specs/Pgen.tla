------------------------------- MODULE Pgen -------------------------------
(***************************************************************************)
(* C08: the parser generator is faithful to the grammar text and LL(1).    *)
(*                                                                         *)
(* gs.json (generated on every run from /repo's current tree) defines Gs,   *)
(* a sequence of grammars, each with the rules' syntax trees (read from    *)
(* the grammar TEXT by an independent reader) and the tables the real      *)
(* generate_grammar() produced (walked from the live objects):             *)
(*   rules[r].dfa[d] = [final, arcs = << <<label, target>> ... >>,         *)
(*                      plans = << <<token, next, pushes>> ... >>]          *)
(*   pushes = << <<rule index, state index>> ... >>                        *)
(*                                                                         *)
(* Part "bisim": for every rule TLC explores the product of the real DFA   *)
(* with the position automaton of the rule's text from the initial pair    *)
(* along every symbol.  SameFinal + SameArcs in every reachable pair is a  *)
(* bisimulation, i.e. language equality, for every rule and every state.   *)
(*                                                                         *)
(* Part "first": FIRST sets with push chains are computed as an explicit   *)
(* least-fixpoint iteration (one round per step); at the fixpoint every    *)
(* state's token-to-plan table must be exactly "direct terminal arcs plus, *)
(* for each nonterminal arc, every token that can begin that nonterminal   *)
(* with the chain of states to push", with no token claimed twice.         *)
(***************************************************************************)
EXTENDS Ebnf, TLC, Json

Gs == JsonDeserialize("gs.json")

NG == Len(Gs)
NR(g) == Len(Gs[g].rules)
Info == [g \in 1..NG |-> [r \in 1..NR(g) |-> RhsInfo(Gs[g].rules[r].rhs)]]
Dfa(g, r) == Gs[g].rules[r].dfa
RuleIdx(g, name) == CHOOSE r \in 1..NR(g) : Gs[g].rules[r].name = name

VARIABLES phase, g, rule, ds, ps, fc, round
vars == <<phase, g, rule, ds, ps, fc, round>>

ArcLabels(d) == {d.arcs[i][1] : i \in 1..Len(d.arcs)}
ArcTarget(d, s) == (CHOOSE i \in 1..Len(d.arcs) : d.arcs[i][1] = s)
TargetOf(d, s) == d.arcs[ArcTarget(d, s)][2]

(* ------------------------------ bisim ------------------------------ *)
InitBisim == /\ phase = "bisim" /\ g \in 1..NG /\ Gs[g].verdict = "ok"
             /\ rule \in 1..NR(g) /\ ds = 1 /\ ps = {0} /\ fc = <<>> /\ round = 0
NextBisim ==
  /\ phase = "bisim"
  /\ \E s \in EnabledSyms(Info[g][rule], ps) \cap ArcLabels(Dfa(g, rule)[ds]) :
       /\ ds' = TargetOf(Dfa(g, rule)[ds], s)
       /\ ps' = StepOn(Info[g][rule], ps, s)
  /\ UNCHANGED <<phase, g, rule, fc, round>>

SameFinal == phase = "bisim" => Dfa(g, rule)[ds].final = Accepting(Info[g][rule], ps)
SameArcs == phase = "bisim" => ArcLabels(Dfa(g, rule)[ds]) = EnabledSyms(Info[g][rule], ps)
Deterministic == phase = "bisim" =>
                   Cardinality(ArcLabels(Dfa(g, rule)[ds])) = Len(Dfa(g, rule)[ds].arcs)
TargetsInRule == phase = "bisim" =>
                   \A i \in 1..Len(Dfa(g, rule)[ds].arcs) :
                      Dfa(g, rule)[ds].arcs[i][2] \in 1..Len(Dfa(g, rule))

(* ------------------------------ first ------------------------------ *)
(* rule index of a nonterminal label: labels are "N:<name>"; the generated module also gives, per rule,
   its label in field `lab` so no string slicing is needed *)
RuleOfLabel(gg, lab) == CHOOSE r \in 1..NR(gg) : Gs[gg].rules[r].lab = lab

(* A symbol label is <<kind, spelling in the grammar text, value>>; two spellings of one reserved string   *)
(* ('x' and "x") are two symbols (two arcs) that claim the same token <<kind, value>>.                  *)
Tok(lab) == <<lab[1], lab[3]>>

FC0(gg) == [n \in 1..NR(gg) |->
             LET d == Dfa(gg, n)[1] IN
             {<<Tok(d.arcs[i][1]), << <<n, d.arcs[i][2]>> >> >> : i \in {j \in 1..Len(d.arcs) : IsTerminal(d.arcs[j][1])}}]
Round(gg, f) == [n \in 1..NR(gg) |->
             LET d == Dfa(gg, n)[1]
                 nts == {j \in 1..Len(d.arcs) : ~IsTerminal(d.arcs[j][1])}
             IN FC0(gg)[n] \cup
                UNION {{<<e[1], << <<n, d.arcs[j][2]>> >> \o e[2]>> : e \in f[RuleOfLabel(gg, d.arcs[j][1])]} : j \in nts}]

InitFirst == /\ phase = "first" /\ g \in 1..NG /\ Gs[g].verdict = "ok"
             /\ rule = 0 /\ ds = 0 /\ ps = {} /\ fc = FC0(g) /\ round = 0
NextFirst == /\ phase = "first" /\ Round(g, fc) # fc
             /\ fc' = Round(g, fc) /\ round' = round + 1
             /\ UNCHANGED <<phase, g, rule, ds, ps>>

AtFixpoint == phase = "first" /\ Round(g, fc) = fc

Expected(gg, f, d) ==
  {<<Tok(d.arcs[i][1]), d.arcs[i][2], <<>> >> : i \in {j \in 1..Len(d.arcs) : IsTerminal(d.arcs[j][1])}}
  \cup UNION {{<<e[1], d.arcs[j][2], e[2]>> : e \in f[RuleOfLabel(gg, d.arcs[j][1])]}
              : j \in {k \in 1..Len(d.arcs) : ~IsTerminal(d.arcs[k][1])}}
RealPlans(d) == {<<d.plans[i][1], d.plans[i][2], d.plans[i][3]>> : i \in 1..Len(d.plans)}

PlansExact == AtFixpoint =>
  \A r \in 1..NR(g) : \A k \in 1..Len(Dfa(g, r)) :
     RealPlans(Dfa(g, r)[k]) = Expected(g, fc, Dfa(g, r)[k])
NoTokenTwice == AtFixpoint =>
  \A r \in 1..NR(g) : \A k \in 1..Len(Dfa(g, r)) :
     LET ex == Expected(g, fc, Dfa(g, r)[k]) IN
       /\ Cardinality({e[1] : e \in ex}) = Cardinality(ex)
       /\ Cardinality(RealPlans(Dfa(g, r)[k])) = Len(Dfa(g, r)[k].plans)
(* the fixpoint must exist (no left recursion): rounds are bounded by the number of rules *)
FixpointReached == phase = "first" => round <= NR(g) + 1

(* ----------------------------- verdict ----------------------------- *)
(* "LL(1) in this sense", decided from the grammar TEXT alone: left recursion = a cycle through the  *)
(* nonterminals that can begin a rule; ambiguity = an automaton state in which two different symbols *)
(* claim the same first token.  The generator must reject exactly those (left recursion first) and   *)
(* accept everything else.                                                                           *)
FirstNts(gg, r) == {RuleOfLabel(gg, y) : y \in {x \in EnabledSyms(Info[gg][r], {0}) : ~IsTerminal(x)}}
Compose(A, B) == UNION {{<<a[1], b[2]>> : b \in {x \in B : x[1] = a[2]}} : a \in A}
RECURSIVE TransClosure(_, _)
TransClosure(E, Rl) == LET nxt == Rl \cup Compose(Rl, E) IN IF nxt = Rl THEN Rl ELSE TransClosure(E, nxt)
Edges(gg) == UNION {{<<r, m>> : m \in FirstNts(gg, r)} : r \in 1..NR(gg)}
LeftRec(gg) == LET E == Edges(gg) IN \E e \in TransClosure(E, E) : e[1] = e[2]

TermFirst(gg, r) == {Tok(x) : x \in {y \in EnabledSyms(Info[gg][r], {0}) : IsTerminal(y)}}
RECURSIVE FirstIter(_, _, _)
FirstIter(gg, F, nts) ==      \* least fixpoint (FIRST sets only grow and are bounded, so it exists even with cycles)
  LET nxt == [r \in 1..NR(gg) |-> F[r] \cup UNION {F[m] : m \in nts[r]}]
  IN IF nxt = F THEN F ELSE FirstIter(gg, nxt, nts)
FirstToks(gg) == FirstIter(gg, [r \in 1..NR(gg) |-> TermFirst(gg, r)], [r \in 1..NR(gg) |-> FirstNts(gg, r)])

RECURSIVE Close(_, _, _)
Close(I, seen, frontier) ==
  IF frontier = {} THEN seen
  ELSE LET new == UNION {{StepOn(I, P, s) : s \in EnabledSyms(I, P)} : P \in frontier} \ seen
       IN Close(I, seen \cup new, new)
ReachStates(I) == Close(I, {{0}}, {{0}})
Ambiguous(gg) ==
  LET F == FirstToks(gg)
      Toks(s) == IF IsTerminal(s) THEN {Tok(s)} ELSE F[RuleOfLabel(gg, s)]
  IN \E r \in 1..NR(gg) : \E P \in ReachStates(Info[gg][r]) :
        \E s1, s2 \in EnabledSyms(Info[gg][r], P) : s1 # s2 /\ Toks(s1) \cap Toks(s2) # {}
SpecVerdict(gg) == IF LeftRec(gg) THEN "leftrec" ELSE IF Ambiguous(gg) THEN "ambiguous" ELSE "ok"

InitVerdict == /\ phase = "verdict" /\ g \in 1..NG
               /\ rule = 0 /\ ds = 0 /\ ps = {} /\ fc = <<>> /\ round = 0
(* accepted exactly when LL(1); otherwise rejected with one of the two proper errors (which of the two is *)
(* reported when a grammar is both ambiguous and left-recursive is not part of the property)             *)
VerdictAgrees == phase = "verdict" =>
                   /\ Gs[g].verdict \in {"ok", "ambiguous", "leftrec"}
                   /\ (Gs[g].verdict = "ok") <=> (SpecVerdict(g) = "ok")

Init == InitBisim \/ InitFirst \/ InitVerdict
Next == NextBisim \/ NextFirst
Spec == Init /\ [][Next]_vars
=============================================================================
