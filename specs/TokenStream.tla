--------------------------- MODULE TokenStream ---------------------------
(***************************************************************************)
(* A-spec (property level) for C09 and the token half of C01/C03.          *)
(*                                                                         *)
(* It says what ANY token stream for a given input must look like - it     *)
(* tiles the input, carries true positions, keeps INDENT/DEDENT balanced,  *)
(* ends in exactly one ENDMARKER and has pure prefixes - and deliberately  *)
(* nothing about how characters are grouped into tokens.                   *)
(*                                                                         *)
(* The operators take the input as a parameter so that the same clauses    *)
(* serve (i) the stand-alone nondeterministic specification below          *)
(* (CONSTANT Input, every legal tokenization is a behaviour) and (ii) the  *)
(* batch trace specification TokTrace, which validates token streams       *)
(* recorded from parso.python.tokenize.tokenize().                         *)
(*                                                                         *)
(* Text is a sequence of code points (TLC has no character type).          *)
(***************************************************************************)
EXTENDS Naturals, Sequences, FiniteSets, SequencesExt, TLC

NL  == 10
CR  == 13
FF  == 12
TAB == 9
SP  == 32
HASH == 35
BSL == 92
BOM == 65279

LayoutTypes == {"INDENT", "DEDENT", "ERROR_DEDENT"}
RealTypes == {"STRING", "NUMBER", "NAME", "ERRORTOKEN", "NEWLINE", "FSTRING_STRING",
              "FSTRING_START", "FSTRING_END", "OP", "ENDMARKER"}
TokenTypes == LayoutTypes \cup RealTypes

(***************************************************************************)
(* Positions.  PosTable(inp)[k+1] is the (line, column) reached after      *)
(* consuming k characters of inp, starting at (1,0), where only \n, \r\n   *)
(* and \r are line breaks and a BOM that is the very first character has   *)
(* zero width (C03).  Entries are <<line, col, lastWasCR>>.                *)
(***************************************************************************)
PosStep(p, ch, isFirst) ==
  IF ch = CR THEN <<p[1] + 1, 0, TRUE>>
  ELSE IF ch = NL THEN (IF p[3] THEN <<p[1], 0, FALSE>> ELSE <<p[1] + 1, 0, FALSE>>)
  ELSE IF ch = BOM /\ isFirst THEN <<p[1], p[2], FALSE>>
  ELSE <<p[1], p[2] + 1, FALSE>>

PosTable(inp) ==
  LET F[k \in 0..Len(inp)] ==
        IF k = 0 THEN << <<1, 0, FALSE>> >>
        ELSE LET prev == F[k - 1] IN Append(prev, PosStep(prev[k], inp[k], k = 1))
  IN F[Len(inp)]

PosOf(ptab, k) == <<ptab[k + 1][1], ptab[k + 1][2]>>

(* Incremental form used by the token monitor: walk a piece of text from a  *)
(* position triple; atStart = the piece begins at offset 0 of the input.    *)
Advance(p, txt, atStart) ==
  LET F[k \in 0..Len(txt)] == IF k = 0 THEN p ELSE PosStep(F[k - 1], txt[k], atStart /\ k = 1)
  IN F[Len(txt)]

PosLE(a, b) == a[1] < b[1] \/ (a[1] = b[1] /\ a[2] <= b[2])

(***************************************************************************)
(* PurePrefix: a prefix contains only syntactically irrelevant text:       *)
(*   BOM (only as the very first character of the input), then             *)
(*   ( space | tab | form feed | '#' non-newline* | '\' newline | newline)* *)
(* DFA states: 0 normal, 1 in comment, 2 after backslash, 9 reject.        *)
(***************************************************************************)
PrefixDelta(q, ch, allowBom) ==
  CASE q = 0 ->
         IF ch \in {SP, TAB, FF, NL, CR} THEN 0
         ELSE IF ch = HASH THEN 1
         ELSE IF ch = BSL THEN 2
         ELSE IF ch = BOM /\ allowBom THEN 0
         ELSE 9
    [] q = 1 -> IF ch \in {NL, CR} THEN 0 ELSE 1
    [] q = 2 -> IF ch \in {NL, CR} THEN 0 ELSE 9
    [] OTHER -> 9

PrefixRun(p, atStart) ==
  LET F[k \in 0..Len(p)] ==
        IF k = 0 THEN 0 ELSE PrefixDelta(F[k - 1], p[k], atStart /\ k = 1)
  IN F[Len(p)]

PurePrefix(p, atStart) == PrefixRun(p, atStart) \in {0, 1}

(***************************************************************************)
(* Monitor state: cur = characters consumed, pos = position triple at cur, *)
(* depth = open indents,                                                   *)
(* lay = <<>> or <<pos>> of the pending zero-width layout tokens,          *)
(* ended = ENDMARKER seen.                                                 *)
(***************************************************************************)
InitSt == [cur |-> 0, pos |-> <<1, 0, FALSE>>, depth |-> 0, lay |-> <<>>, ended |-> FALSE]

(* The first clause of C09 that token tok = [t, s, p, l, c] breaks in state *)
(* st, or "ok".                                                            *)
Clause(inp, st, tok) ==
  LET np == Len(tok.p)
      ns == Len(tok.s)
      here == <<st.pos[1], st.pos[2]>>
      afterp == Advance(st.pos, tok.p, st.cur = 0)
  IN
  IF st.ended THEN "OneEndmarker:token-after-ENDMARKER"
  ELSE IF tok.t \notin TokenTypes THEN "TokenType"
  ELSE IF st.cur + np + ns > Len(inp) THEN "Tiles:beyond-input"
  ELSE IF SubSeq(inp, st.cur + 1, st.cur + np) # tok.p THEN "Tiles:prefix"
  ELSE IF SubSeq(inp, st.cur + np + 1, st.cur + np + ns) # tok.s THEN "Tiles:string"
  ELSE IF ~PurePrefix(tok.p, st.cur = 0) THEN "PurePrefix"
  ELSE IF tok.t \in LayoutTypes THEN
         IF np + ns # 0 THEN "Layout:not-zero-width"
         ELSE IF ~PosLE(here, <<tok.l, tok.c>>) THEN "TruePos:layout-before-cursor"
         ELSE IF st.lay # <<>> /\ st.lay[1] # <<tok.l, tok.c>> THEN "TruePos:layout-run-differs"
         ELSE IF tok.t = "DEDENT" /\ st.depth = 0 THEN "Balanced:dedent-below-zero"
         ELSE IF tok.t = "ERROR_DEDENT" /\ st.depth = 0 THEN "Balanced:error-dedent-at-zero"
         ELSE "ok"
  ELSE IF <<tok.l, tok.c>> # <<afterp[1], afterp[2]>> THEN "TruePos:start"
  ELSE IF st.lay # <<>> /\ st.lay[1] # <<tok.l, tok.c>> THEN "TruePos:layout-not-at-next-token"
  ELSE IF tok.t = "ENDMARKER" /\ st.cur + np + ns # Len(inp) THEN "OneEndmarker:input-left"
  ELSE IF tok.t = "ENDMARKER" /\ ns # 0 THEN "OneEndmarker:nonempty"
  ELSE IF tok.t = "ENDMARKER" /\ st.depth # 0 THEN "Balanced:open-indents-at-end"
  ELSE "ok"

After(st, tok) ==
  [cur   |-> st.cur + Len(tok.p) + Len(tok.s),
   pos   |-> Advance(Advance(st.pos, tok.p, st.cur = 0), tok.s, st.cur = 0 /\ tok.p = <<>>),
   depth |-> IF tok.t = "INDENT" THEN st.depth + 1
             ELSE IF tok.t = "DEDENT" THEN st.depth - 1 ELSE st.depth,
   lay   |-> IF tok.t \in LayoutTypes THEN << <<tok.l, tok.c>> >> ELSE <<>>,
   ended |-> tok.t = "ENDMARKER"]

(* A stream that simply stops is wrong too. *)
EndClause(st) == IF st.ended THEN "ok" ELSE "OneEndmarker:missing"

=============================================================================
