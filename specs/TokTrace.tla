----------------------------- MODULE TokTrace -----------------------------
(***************************************************************************)
(* Batch trace validation of token streams recorded from the real          *)
(* tokenizer against the A-spec TokenStream.                               *)
(*                                                                         *)
(* traces.json = [ {id, inp, toks: [{t, s, p, l, c}], raised} ... ]        *)
(*                                                                         *)
(* The trace spec is TOTAL: next to the accepting step there is a Reject   *)
(* step, enabled exactly when a clause fails; it prints the trace id, the  *)
(* token index and the failing clause and moves on to the next trace, so   *)
(* one TLC run yields a verdict for every trace.                           *)
(***************************************************************************)
EXTENDS TokenStream, Json, IOUtils

Traces == JsonDeserialize("traces.json")
NT == Len(Traces)

VARIABLES tid, k, st, nacc, nrej
vars == <<tid, k, st, nacc, nrej>>

W == IF "shards" \in DOMAIN IOEnv THEN atoi(IOEnv.shards) ELSE 1

Init == /\ tid \in 1..W /\ k = 1 /\ st = InitSt
        /\ nacc = 0 /\ nrej = 0

NextTrace == /\ tid' = tid + W /\ k' = 1 /\ st' = InitSt

Tr == Traces[tid]

Emit ==
  /\ tid <= NT /\ k <= Len(Tr.toks)
  /\ Clause(Tr.inp, st, Tr.toks[k]) = "ok"
  /\ st' = After(st, Tr.toks[k]) /\ k' = k + 1
  /\ UNCHANGED <<tid, nacc, nrej>>

Reject ==
  /\ tid <= NT /\ k <= Len(Tr.toks)
  /\ LET c == Clause(Tr.inp, st, Tr.toks[k]) IN
       /\ c # "ok"
       /\ PrintT(<<"REJECT", Tr.id, k, c>>)
  /\ NextTrace /\ nrej' = nrej + 1 /\ nacc' = nacc

End ==
  /\ tid <= NT /\ k = Len(Tr.toks) + 1
  /\ LET c == IF Tr.raised THEN "NeverFails:raised" ELSE EndClause(st) IN
       IF c = "ok" THEN nacc' = nacc + 1 /\ nrej' = nrej
       ELSE PrintT(<<"REJECT", Tr.id, k, c>>) /\ nrej' = nrej + 1 /\ nacc' = nacc
  /\ NextTrace

Finish ==
  /\ tid > NT /\ tid <= NT + W
  /\ PrintT(<<"SUMMARY", nacc, nrej>>)
  /\ tid' = tid + W /\ UNCHANGED <<k, st, nacc, nrej>>

(* The same verdict in one step per trace (used for large batches: the      *)
(* per-state overhead of TLC dominates otherwise).  RunTrace folds exactly  *)
(* the Clause/After operators the token-by-token actions above use.         *)
RunTrace(tr) ==
  LET F[j \in 0..Len(tr.toks)] ==
        IF j = 0 THEN [st |-> InitSt, bad |-> "ok", at |-> 0]
        ELSE LET p == F[j - 1] IN
             IF p.bad # "ok" THEN p
             ELSE LET c == Clause(tr.inp, p.st, tr.toks[j]) IN
                  IF c = "ok" THEN [st |-> After(p.st, tr.toks[j]), bad |-> "ok", at |-> 0]
                  ELSE [st |-> p.st, bad |-> c, at |-> j]
      r == F[Len(tr.toks)]
  IN IF r.bad # "ok" THEN <<r.bad, r.at>>
     ELSE IF tr.raised THEN <<"NeverFails:raised", Len(tr.toks) + 1>>
     ELSE <<EndClause(r.st), Len(tr.toks) + 1>>

Whole ==
  /\ tid <= NT /\ k = 1
  /\ LET v == RunTrace(Tr) IN
       IF v[1] = "ok" THEN nacc' = nacc + 1 /\ nrej' = nrej
       ELSE PrintT(<<"REJECT", Tr.id, v[2], v[1]>>) /\ nrej' = nrej + 1 /\ nacc' = nacc
  /\ NextTrace

Next == Emit \/ Reject \/ End \/ Finish
Spec == Init /\ [][Next]_vars
NextWhole == Whole \/ Finish
SpecWhole == Init /\ [][NextWhole]_vars
=============================================================================
