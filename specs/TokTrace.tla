----------------------------- MODULE TokTrace -----------------------------
(***************************************************************************)
(* Batch trace validation of token streams recorded from the real          *)
(* tokenizer against the A-spec TokenStream.                               *)
(*                                                                         *)
(* traces.json = [ {id, inp, toks: [{t, s, p, l, c}], raised} ... ]        *)
(*                                                                         *)
(* The trace spec is TOTAL: next to the accepting step there is a Reject   *)
(* step, enabled exactly when a clause fails; it prints the trace id, the  *)
(* token index and the failing clause and moves on to the next trace, so   *)
(* one TLC run yields a verdict for every trace.                           *)
(***************************************************************************)
EXTENDS TokenStream, Json

Traces == JsonDeserialize("traces.json")
NT == Len(Traces)

VARIABLES tid, k, st, ptab, nacc, nrej
vars == <<tid, k, st, ptab, nacc, nrej>>

TableFor(i) == IF i <= NT THEN PosTable(Traces[i].inp) ELSE <<>>

Init == /\ tid = 1 /\ k = 1 /\ st = InitSt /\ ptab = TableFor(1)
        /\ nacc = 0 /\ nrej = 0

NextTrace == /\ tid' = tid + 1 /\ k' = 1 /\ st' = InitSt /\ ptab' = TableFor(tid + 1)

Tr == Traces[tid]

Emit ==
  /\ tid <= NT /\ k <= Len(Tr.toks)
  /\ Clause(Tr.inp, ptab, st, Tr.toks[k]) = "ok"
  /\ st' = After(st, Tr.toks[k]) /\ k' = k + 1
  /\ UNCHANGED <<tid, ptab, nacc, nrej>>

Reject ==
  /\ tid <= NT /\ k <= Len(Tr.toks)
  /\ LET c == Clause(Tr.inp, ptab, st, Tr.toks[k]) IN
       /\ c # "ok"
       /\ PrintT(<<"REJECT", Tr.id, k, c>>)
  /\ NextTrace /\ nrej' = nrej + 1 /\ nacc' = nacc

End ==
  /\ tid <= NT /\ k = Len(Tr.toks) + 1
  /\ LET c == IF Tr.raised THEN "NeverFails:raised" ELSE EndClause(st) IN
       IF c = "ok" THEN nacc' = nacc + 1 /\ nrej' = nrej
       ELSE PrintT(<<"REJECT", Tr.id, k, c>>) /\ nrej' = nrej + 1 /\ nacc' = nacc
  /\ NextTrace

Finish ==
  /\ tid = NT + 1
  /\ PrintT(<<"SUMMARY", nacc, nrej>>)
  /\ tid' = NT + 2 /\ UNCHANGED <<k, st, ptab, nacc, nrej>>

Next == Emit \/ Reject \/ End \/ Finish
Spec == Init /\ [][Next]_vars
=============================================================================
