---------------------------- MODULE GrammarEnum ----------------------------
(***************************************************************************)
(* Generator for C08 part 3: TLC enumerates every small grammar - NRules    *)
(* rules r1..rN whose right-hand sides are syntax trees of operator depth   *)
(* <= Depth over two terminals and the rule names, non-nullable rules only  *)
(* (nullable rules are outside what the property calls LL(1)) - and prints  *)
(* each as grammar text.  The harness feeds the text to the real            *)
(* generate_grammar(); module Pgen then checks the verdict class and, for   *)
(* accepted grammars, the tables.                                           *)
(***************************************************************************)
EXTENDS Ebnf, TLC
CONSTANTS NRules, Depth, DeepRules,  \* rules 1..DeepRules use depth Depth, the others depth 1 (or 0 if Depth = 0)
          Family                       \* "all" | "loops": every rule is  ['c'] (B)* 'c'  or  ['c'] (B)+ 'c'  with B any
                                       \* NULLABLE expression of depth <= 2 over 'a', 'b' - loops around bodies that can
                                       \* be empty, where the epsilon closure of the NFA has cycles

RuleNames == <<"r1", "r2", "r3", "r4">>
Symbols == {<<"S", "a">>, <<"S", "b">>} \cup {<<"N", RuleNames[i]>> : i \in 1..NRules}

E0 == {[op |-> "sym", id |-> 0, s |-> x] : x \in Symbols}
RECURSIVE Ex(_)
Ex(k) == IF k = 0 THEN E0
         ELSE LET P == Ex(k - 1) IN
              P \cup {[op |-> "alt", l |-> a, r |-> b] : a \in P, b \in P}
                \cup {[op |-> "seq", l |-> a, r |-> b] : a \in P, b \in P}
                \cup {[op |-> o, l |-> a] : o \in {"opt", "star", "plus"}, a \in P}

E0T == {[op |-> "sym", id |-> 0, s |-> x] : x \in {<<"S", "a">>, <<"S", "b">>}}
RECURSIVE ExT(_)
ExT(k) == IF k = 0 THEN E0T
          ELSE LET P == ExT(k - 1) IN
               P \cup {[op |-> "alt", l |-> a, r |-> b] : a \in P, b \in P}
                 \cup {[op |-> "seq", l |-> a, r |-> b] : a \in P, b \in P}
                 \cup {[op |-> o, l |-> a] : o \in {"opt", "star", "plus"}, a \in P}
CSym == [op |-> "sym", id |-> 0, s |-> <<"S", "c">>]
Loops == LET B == {e \in ExT(2) : Nullable(e)}
             L == {[op |-> o, l |-> b] : o \in {"star", "plus"}, b \in B}
         IN {[op |-> "seq", l |-> x, r |-> CSym] : x \in L}
            \cup {[op |-> "seq", l |-> CSym, r |-> [op |-> "seq", l |-> x, r |-> CSym]] : x \in L}

NonNullable(S) == {e \in S : ~Nullable(e)}
Shallow == NonNullable(Ex(IF Depth = 0 THEN 0 ELSE 1))
Deep == NonNullable(Ex(Depth))

SymText(s) == IF s[1] = "S" THEN "'" \o s[2] \o "'" ELSE s[2]
RECURSIVE R(_, _)
R(e, ctx) ==
  CASE e.op = "sym" -> SymText(e.s)
    [] e.op = "alt" -> IF ctx \in {"top", "alt"} THEN R(e.l, "alt") \o " | " \o R(e.r, "alt")
                       ELSE "(" \o R(e.l, "alt") \o " | " \o R(e.r, "alt") \o ")"
    [] e.op = "seq" -> IF ctx = "rep" THEN "(" \o R(e.l, "seq") \o " " \o R(e.r, "seq") \o ")"
                       ELSE R(e.l, "seq") \o " " \o R(e.r, "seq")
    [] e.op = "opt" -> IF ctx = "rep" THEN "([" \o R(e.l, "top") \o "])" ELSE "[" \o R(e.l, "top") \o "]"
    [] e.op = "star" -> IF ctx = "rep" THEN "(" \o R(e.l, "rep") \o "*)" ELSE R(e.l, "rep") \o "*"
    [] e.op = "plus" -> IF ctx = "rep" THEN "(" \o R(e.l, "rep") \o "+)" ELSE R(e.l, "rep") \o "+"

VARIABLES gr, done
Init == /\ IF Family = "loops" THEN gr \in [1..NRules -> Loops]
           ELSE /\ gr \in [1..NRules -> Deep \cup Shallow]
                /\ \A i \in 1..NRules : IF i <= DeepRules THEN gr[i] \in Deep ELSE gr[i] \in Shallow
        /\ done = FALSE
Emit == /\ ~done /\ done' = TRUE /\ gr' = gr
        /\ PrintT(<<"G", [i \in 1..NRules |-> R(gr[i], "top")]>>)
Spec == Init /\ [][Emit]_<<gr, done>>
=============================================================================
