------------------------------ MODULE Bindings ------------------------------
(***************************************************************************)
(* Generator for C14: the binding-construct x target-shape x context matrix *)
(* (every way a name can be bound or deleted, with every shape of target,   *)
(* at module level and inside def / class / async def).  TLC enumerates the *)
(* triples; checks/C14.py renders them from templates.                      *)
(***************************************************************************)
EXTENDS Naturals, TLC
Constructs == {"assign", "chain", "augassign", "annassign", "annonly", "for", "asyncfor", "with", "asyncwith", "listcomp",
               "setcomp", "dictcomp", "genexp", "nestedcomp", "walrus", "walrusarg", "walruscomp", "del", "import",
               "importas", "dotted", "from", "fromas", "fromstar", "relfrom", "except", "exceptbare", "param", "paramdefault",
               "paramannot", "paramstar", "paramkw", "paramposonly", "paramkwonly", "lambda", "lambdadefault", "global",
               "nonlocal", "classdef", "funcdef", "decorated", "forelse", "withmulti", "trystar", "importmulti",
               "importmulti2", "importmulti3", "frommulti", "generic", "genericret", "genericasync", "genericbound",
               "genericclass", "typealias", "retannot", "asyncret"}
Shapes == {"name", "attr", "subscript", "starred", "tuple", "list", "paren", "nested", "attrchain", "slice"}
Contexts == {"module", "def", "class", "asyncdef", "nesteddef", "method"}
VARIABLES c, s, x
Init == c \in Constructs /\ s \in Shapes /\ x \in Contexts
Next == UNCHANGED <<c, s, x>>
Spec == Init /\ [][Next]_<<c, s, x>>
=============================================================================
