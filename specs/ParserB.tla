------------------------------ MODULE ParserB ------------------------------
(***************************************************************************)
(* B-spec (design level) of parso's LL(1) parser engine with Python error  *)
(* recovery: parso/parser.py BaseParser._add_token/_pop/parse and          *)
(* parso/python/parser.py Parser.error_recovery/_stack_removal/            *)
(* _recovery_tokenize, one operator per code path, running on the REAL     *)
(* tables of one grammar version (gs.json, exported from the live objects  *)
(* on every run) - so a change to a grammar file or to the generator       *)
(* changes this model.                                                     *)
(*                                                                         *)
(* Decides on the design, over every token stream the environment TokEnv   *)
(* allows up to a bound (exhaustive search keeps only what the code's      *)
(* control flow reads: rule, DFA state, node-count class; with PB.hist the *)
(* child symbols are kept too and NodesConform is evaluated at every pop): *)
(*   C02 NeverCrash     - the failure points of the code ("too much        *)
(*                        input", "incomplete input", last_leaf None) are  *)
(*                        unreachable, every token is consumed, the run    *)
(*                        ends in a single finished start rule;            *)
(*   C05 NodesConform   - whenever a node closes, its child symbols are a  *)
(*                        sentence of the rule's right-hand side TEXT      *)
(*                        (position automaton of Ebnf) under the stated    *)
(*                        conventions; ErrorsConfined;                     *)
(*   C07 FilterInert    - the recovery-only DEDENT filter does nothing     *)
(*                        before the first error.                          *)
(* Its behaviours (token streams with the predicted node-closing events)   *)
(* are replayed into the real parser by the harness.                       *)
(*                                                                         *)
(* Facts about the code that are easy to get wrong (DESIGN App. C):        *)
(*  (1) a plan's dfa_pushes are POST-states: a pushed entry is already in  *)
(*      the state after its first item;                                    *)
(*  (2) _pop collapses EVERY single-child entry;                           *)
(*  (3) recovery re-feeds the token through _add_token, so it can nest.    *)
(***************************************************************************)
EXTENDS Conform, TokEnv

PB == JsonDeserialize("pb.json")   \* labels, breakkw, start, mode, env, hist, maxindent, pm, ids, ...
Dfa(r) == Rules[r].dfa
StartR == RuleNamed(PB.start)
(* Tokens are integers 1..NL: one representative per class of tokens that have identical plans in every  *)
(* DFA state (exact bisimulation reduction computed at export time); PB.labels[i] = <<kind, value>>.     *)
NL == Len(PB.labels)
Labels == 1..NL
TokName(i) == PB.labels[i]
BreakKw == {PB.breakkw[i] : i \in 1..Len(PB.breakkw)}
Mode == PB.mode            \* "recover" | "strict"
EnvMode == PB.env          \* "tokenv": any stream the tokenizer can emit | "valid": sentences only
Hist == PB.hist            \* keep the event log `out` (simulation) or not (exhaustive search)
MaxIndent == PB.maxindent

NEWLINE == PB.ids.NEWLINE
INDENT == PB.ids.INDENT
DEDENT == PB.ids.DEDENT
ENDMARKER == PB.ids.ENDMARKER
ERROR_DEDENT == PB.ids.ERROR_DEDENT
ERRORTOKEN_NL == PB.ids.ERRORTOKEN_NL   \* an error token whose text ends in a line break (unterminated string at EOF)

(* PM[r][k][t] = <<>> (no plan) or <<next state, pushes>>: the exported plans indexed by token id *)
PM == PB.pm
Final(e) == Dfa(e.r)[e.k].final
HasPlan(e, t) == PM[e.r][e.k][t] # <<>>
StmtTarget(e) ==  \* target of the arc labelled `stmt` in e's state, or 0  (tos.dfa.arcs['stmt'])
  LET a == Dfa(e.r)[e.k].arcs
      hit == {i \in 1..Len(a) : a[i][1][1] = "N" /\ a[i][1][3] = "stmt"}
  IN IF hit = {} THEN 0 ELSE a[CHOOSE i \in hit : TRUE][2]

(***************************************************************************)
(* The parser state.  Stack entry: r rule, k DFA state, syms the symbols   *)
(* of the nodes built so far in this entry (pre-collapse bookkeeping: a    *)
(* closed subtree is summarised by its symbol).                            *)
(***************************************************************************)
VARIABLES stack, lastNL, ic, omit, errored, status, bad, out, toks, nrec, errAt, sid,
          env        \* state of the token-stream environment (module TokEnv)
pvars == <<stack, lastNL, ic, omit, errored, status, bad, out, toks, nrec, errAt, sid>>
evars == <<env>>
vars == <<pvars, evars>>

Top(st) == st[Len(st)]
Cls(n) == IF n >= 2 THEN 2 ELSE n      \* control only distinguishes 0, 1, more nodes
AddSym(sy, c) == IF Hist THEN Append(sy, c) ELSE sy
Real(syms) == SelectSeq(syms, LAMBDA c : c # VNEWLINE)
(* Symbol a closing entry contributes to its parent.  _pop collapses every single-child entry; for the   *)
(* conformance bookkeeping (syms) an entry that was closed by the missing-newline tolerance keeps its    *)
(* rule name (the virtual newline counts as a child), while `shown` follows the real tree exactly.      *)
NodeSym(e) == IF Len(e.syms) = 1 THEN e.syms[1] ELSE <<"N", Rules[e.r].name>>
ShownSym(e) == IF Len(e.shown) = 1 THEN e.shown[1] ELSE <<"N", Rules[e.r].name>>
(* children the real node will have: convert_node drops the INDENT/DEDENT leaves of a suite *)
Kids(e) == IF e.r = SuiteR THEN SelectSeq(e.shown, LAMBDA c : c \notin {<<"T", "INDENT">>, <<"T", "DEDENT">>}) ELSE e.shown
Event(e) == IF Len(e.shown) = 1 THEN <<>> ELSE << <<Rules[e.r].name, Kids(e)>> >>
Log(o, ev) == IF Hist THEN o \o ev ELSE o
AddShown(sh, c) == IF Hist THEN Append(sh, c) ELSE sh

(* result record threaded through the recursive operators *)
Res(st, lnl, om, err, stt, bd, o, icv, nr, ea) ==
  [stack |-> st, lastNL |-> lnl, omit |-> om, err |-> err, status |-> stt, bad |-> bd, out |-> o, ic |-> icv,
   nrec |-> nr, errAt |-> ea]

(* _pop: close the top entry, append its node (or its single child) to the entry below *)
PopOne(x) ==
  LET st == x.stack
      e == Top(st)
      rest == SubSeq(st, 1, Len(st) - 1)
      p == Top(rest)
      conf == Hist => Accepts(e.r, e.syms)
  IN [x EXCEPT !.stack = [rest EXCEPT ![Len(rest)] = [p EXCEPT !.n = Cls(@ + 1), !.syms = AddSym(@, NodeSym(e)), !.shown = AddShown(@, ShownSym(e))]],
               !.bad = IF conf THEN x.bad ELSE <<"NodesConform", Rules[e.r].name, e.syms>>,
               !.out = Log(x.out, Event(e))]

(* the `while True` loop of _add_token up to the plan lookup: pop finished entries *)
RECURSIVE PopUntil(_, _)
PopUntil(x, t) ==
  LET e == Top(x.stack) IN
  IF HasPlan(e, t) THEN x
  ELSE IF Final(e) THEN (IF Len(x.stack) = 1 THEN [x EXCEPT !.status = "crash:too much input"]
                         ELSE PopUntil(PopOne(x), t))
  ELSE [x EXCEPT !.status = "stuck"]

(* apply the plan: advance the top, push the chain, add the leaf to the new top *)
Shift(x, t, nl) ==
  LET st == x.stack
      e == Top(st)
      plan == PM[e.r][e.k][t]
      st1 == [st EXCEPT ![Len(st)] = [e EXCEPT !.k = plan[1]]]
      st2 == st1 \o [i \in 1..Len(plan[2]) |-> [r |-> plan[2][i][1], k |-> plan[2][i][2], n |-> 0, syms |-> <<>>, shown |-> <<>>]]
      n == Top(st2)
  IN [x EXCEPT !.stack = [st2 EXCEPT ![Len(st2)] = [n EXCEPT !.n = Cls(@ + 1), !.syms = AddSym(@, TokName(t)), !.shown = AddShown(@, TokName(t))]],
               !.lastNL = nl]

(* current_suite(): innermost file_input, or suite that does not consist of just one node *)
RECURSIVE SuiteIdx(_, _)
SuiteIdx(st, i) ==
  IF i = 1 THEN 1
  ELSE IF st[i].r = FileInputR THEN i
  ELSE IF st[i].r = SuiteR /\ st[i].n # 1 THEN i
  ELSE SuiteIdx(st, i - 1)

ForceSuiteStmt(x) ==   \* tos.dfa = tos.dfa.arcs['stmt'] if possible
  LET e == Top(x.stack) IN
  IF e.r = SuiteR /\ StmtTarget(e) # 0
  THEN [x EXCEPT !.stack = [x.stack EXCEPT ![Len(x.stack)] = [e EXCEPT !.k = StmtTarget(e)]]]
  ELSE x

EndsInNewline(t) == t \in {NEWLINE, ERRORTOKEN_NL}

(* _add_token with error_recovery; fuel bounds the nesting of re-feeding *)
RECURSIVE AddTok(_, _, _)
AddTok(x0, t, fuel) ==
  LET x == PopUntil(x0, t) IN
  IF x.status = "run" THEN Shift(x, t, EndsInNewline(t))
  ELSE IF x.status # "stuck" THEN x
  ELSE IF fuel = 0 THEN [x EXCEPT !.status = "crash:recovery does not terminate"]
  ELSE
    LET y == [x EXCEPT !.status = "run"]
        e == Top(y.stack)
    IN
    (* error_recovery(): tos_nodes[-1].get_last_leaf() with no node and a DEDENT -> AttributeError *)
    IF t = DEDENT /\ e.n = 0 THEN [y EXCEPT !.status = "crash:last_leaf is None"]
    (* MissingNewlinePlan: shared by strict and recovering mode *)
    ELSE IF /\ StartR = FileInputR
            /\ (t = ENDMARKER \/ (t = DEDENT /\ ~y.lastNL))
            /\ e.r = SimpleStmtR /\ HasPlan(e, NEWLINE)
            /\ Dfa(e.r)[PM[e.r][e.k][NEWLINE][1]].final /\ PM[e.r][e.k][NEWLINE][2] = <<>>
         THEN AddTok([y EXCEPT !.stack = [y.stack EXCEPT ![Len(y.stack)] =
                                            [e EXCEPT !.k = PM[e.r][e.k][NEWLINE][1], !.syms = AddSym(@, VNEWLINE)]]],
                     t, fuel - 1)
    (* StrictRaise *)
    ELSE IF Mode = "strict" THEN [y EXCEPT !.status = "raised", !.err = TRUE, !.errAt = IF Hist /\ ~y.err THEN Len(toks) + 1 ELSE @]
    ELSE
      LET u == SuiteIdx(y.stack, Len(y.stack))
          above == SubSeq(y.stack, u + 1, Len(y.stack))
          CatShown == IF above = <<>> THEN <<>>
                      ELSE LET F[i \in 0..Len(above)] == IF i = 0 THEN <<>> ELSE F[i - 1] \o above[i].shown
                           IN F[Len(above)]
          anyNodes == \E i \in 1..Len(above) : above[i].n # 0
          base == SubSeq(y.stack, 1, u)
          confined == base[u].r \in {FileInputR, SuiteR}
          yb == [y EXCEPT !.err = TRUE, !.nrec = IF EnvMode = "broken" THEN @ + 1 ELSE @,
                          !.errAt = IF Hist /\ ~y.err THEN Len(toks) + 1 ELSE @,
                          !.bad = IF confined THEN y.bad ELSE <<"ErrorsConfined", Rules[base[u].r].name, <<>> >>]
      IN
      IF anyNodes
      THEN (* RecoverRemove: one error node with everything built above the block; re-feed the token *)
           LET z == [yb EXCEPT !.stack = [base EXCEPT ![u] = [base[u] EXCEPT !.n = Cls(@ + 1),
                                                                                !.syms = AddSym(@, <<"E", "error_node">>),
                                                                                !.shown = AddShown(@, <<"N", "error_node">>)]],
                               !.out = Log(yb.out, << <<"error_node", CatShown>> >>)]
           IN ForceSuiteStmt(AddTok(z, t, fuel - 1))
      ELSE (* RecoverErrorLeaf: the token itself becomes an error leaf of the block *)
           LET z == [yb EXCEPT !.stack = [base EXCEPT ![u] = [base[u] EXCEPT !.n = Cls(@ + 1),
                                                                                !.syms = AddSym(@, <<"E", TokName(t)[2]>>),
                                                                                !.shown = AddShown(@, <<"E", TokName(t)[2]>>)]],
                               !.omit = IF t = INDENT THEN Append(yb.omit, yb.ic) ELSE yb.omit,
                               !.lastNL = EndsInNewline(t)]
           IN ForceSuiteStmt(z)

(* parse(): after the last token unwind the stack; every entry must be final *)
RECURSIVE Unwind(_)
Unwind(x) ==
  LET e == Top(x.stack) IN
  IF ~Final(e) THEN [x EXCEPT !.status = "crash:incomplete input"]
  ELSE IF Len(x.stack) > 1 THEN Unwind(PopOne(x))
  ELSE [x EXCEPT !.status = "done",
                 !.bad = IF Hist => Accepts(e.r, e.syms) THEN x.bad ELSE <<"NodesConform", Rules[e.r].name, e.syms>>,
                 !.out = Log(x.out, << <<Rules[e.r].name, Kids(e)>> >>)]

(***************************************************************************)
(* Environment: the token streams the tokenizer can emit = module TokEnv   *)
(* (ASSUMED here, GUARANTEED by TokenizerB - TLC checks both).             *)
(***************************************************************************)
Kind(t) == IF t = INDENT THEN "INDENT" ELSE IF t = DEDENT THEN "DEDENT" ELSE IF t = ERROR_DEDENT THEN "ERROR_DEDENT"
           ELSE IF t = NEWLINE THEN "NEWLINE" ELSE IF t = ENDMARKER THEN "ENDMARKER"
           ELSE IF t = ERRORTOKEN_NL THEN "ERRORTOKEN_NL" ELSE IF t \in BreakKw THEN "BREAK" ELSE "OTHER"
EnvAllows(t) == Allows(env, Kind(t), MaxIndent)
EnvStep(t) == env' = After(env, Kind(t))

Init ==
  /\ stack = << [r |-> StartR, k |-> 1, n |-> 0, syms |-> <<>>, shown |-> <<>>] >>
  /\ lastNL = FALSE /\ ic = 0 /\ omit = <<>> /\ errored = FALSE /\ status = "run" /\ bad = <<>> /\ out = <<>>
  /\ toks = <<>> /\ nrec = 0 /\ errAt = 0
  /\ sid \in (IF EnvMode = "script" THEN 1..Len(PB.scripts) ELSE {0})
  /\ env = EnvInit

Cur(icv) == Res(stack, lastNL, omit, errored, "run", bad, out, icv, nrec, errAt)

(* Simulation runs close the stream so that every behaviour is a complete file: from level PB.closeat on  *)
(* only closing tokens are offered.  In "broken" mode recovery may start only at the levels PB.errlevels  *)
(* and at most PB.errbudget times (a sentence with a few errors - the realistic editor state).            *)
Closers == {PB.closers[i] : i \in 1..Len(PB.closers)}
ErrLevels == {PB.errlevels[i] : i \in 1..Len(PB.errlevels)}
ClosingPhase == PB.closeat > 0 /\ TLCGet("level") >= PB.closeat
(* "script" mode: the environment follows one of the given token sequences (arc-cover sentences computed by the
   harness from the exported DFAs); TLC then produces the derivation of each. *)
Scripted(t) == EnvMode = "script" => /\ Len(toks) < Len(PB.scripts[sid])
                                     /\ t = PB.scripts[sid][Len(toks) + 1]
ModeAllows(t, r) ==
  /\ Scripted(t)
  /\ (ClosingPhase => t \in Closers)
  /\ (EnvMode = "valid" => ~r.err)
  /\ (EnvMode = "broken" => (r.nrec = nrec \/ (TLCGet("level") \in ErrLevels /\ r.nrec <= PB.errbudget)))
Report(t, r) ==
  (Hist /\ r.status \in {"done", "raised"}) =>
     PrintT(<<"BEH", Mode, Append(toks, t), r.status, r.out, r.err, r.bad, r.errAt>>)

Feed(t) ==
  /\ status = "run" /\ EnvAllows(t) /\ EnvStep(t)
  /\ IF Mode = "recover" /\ t = DEDENT /\ omit # <<>> /\ omit[Len(omit)] = ic
     THEN (* FilterDedent (_recovery_tokenize): the DEDENT of a discarded INDENT never reaches the parser *)
          /\ omit' = SubSeq(omit, 1, Len(omit) - 1) /\ ic' = ic - 1
          /\ toks' = (IF Hist THEN Append(toks, t) ELSE toks)
          /\ (ClosingPhase => t \in Closers) /\ Scripted(t)
          /\ UNCHANGED <<stack, lastNL, errored, status, bad, out, nrec, errAt, sid>>
     ELSE /\ ic' = IF Mode # "recover" THEN ic
                   ELSE IF t = DEDENT THEN ic - 1 ELSE IF t = INDENT THEN ic + 1 ELSE ic
          /\ LET r0 == AddTok(Cur(ic'), t, 4)
                 r == IF t = ENDMARKER /\ r0.status = "run" THEN Unwind(r0) ELSE r0
             IN /\ ModeAllows(t, r) /\ Report(t, r)
                /\ toks' = (IF Hist THEN Append(toks, t) ELSE toks) /\ nrec' = r.nrec /\ errAt' = r.errAt /\ sid' = sid
                /\ stack' = r.stack /\ lastNL' = r.lastNL /\ omit' = r.omit /\ errored' = r.err
                /\ status' = r.status /\ bad' = r.bad /\ out' = r.out

Next == \E t \in Labels : Feed(t)
Spec == Init /\ [][Next]_vars

Bound == TLCGet("level") <= PB.maxtok     \* CONSTRAINT: token streams up to maxtok tokens (depth bound, not a state variable)
DepthBound == Len(stack) <= PB.maxdepth

(* ------------------------------ properties ------------------------------ *)
NeverCrash == status \in {"run", "done", "raised"}
NodesConform == bad = <<>>
FilterInert == ~errored => omit = <<>>                       \* C07: recovery-only filtering is inert before the first error
StrictNeverRecovers == Mode = "strict" => omit = <<>> /\ ic = 0
DoneIsComplete == status = "done" => Len(stack) = 1 /\ stack[1].r = StartR /\ Final(stack[1])
OmitWellFormed == \A i \in 1..Len(omit) : omit[i] >= 1 /\ omit[i] <= ic + Len(omit)
=============================================================================
