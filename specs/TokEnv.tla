------------------------------- MODULE TokEnv -------------------------------
(***************************************************************************)
(* The token-stream environment: which sequences of layout-relevant tokens *)
(* parso's tokenizer can emit (DESIGN A.2, bracket depth not tracked).     *)
(* ParserB ASSUMES it (its Feed action is guarded by Allows); TokenizerB   *)
(* GUARANTEES it (TLC checks that every token TokenizerB emits is allowed  *)
(* in the monitor state).  A token is classified as one of                 *)
(*   "INDENT" "DEDENT" "ERROR_DEDENT" "NEWLINE" "ENDMARKER"                *)
(*   "ERRORTOKEN_NL" (error token whose text ends in a line break)         *)
(*   "BREAK" (an always-break keyword)   "OTHER".                          *)
(* State: [nl, ind, afterIndent, afterDedent, closing, midline].           *)
(***************************************************************************)
EXTENDS Naturals

EnvInit == [nl |-> TRUE, ind |-> 0, afterIndent |-> FALSE, afterDedent |-> FALSE, closing |-> FALSE,
            midline |-> FALSE]

Allows(e, k, maxIndent) ==
  /\ (e.closing => k \in {"DEDENT", "ENDMARKER"})
  /\ (e.midline => k \in {"DEDENT", "ERROR_DEDENT", "ENDMARKER", "BREAK"})
  /\ (k = "INDENT" => e.nl /\ ~e.afterIndent /\ ~e.afterDedent /\ e.ind < maxIndent)
  /\ (k = "DEDENT" => e.ind > 0 /\ ~e.afterIndent)
  /\ (k = "ERROR_DEDENT" => e.ind > 0 /\ ~e.afterIndent)    \* also in mid-line: `(` newline ` del` inside an indented block
                                                            \* (found by TLC as a TokenizerB => TokEnv counterexample)
  /\ (k = "NEWLINE" => ~e.nl /\ ~e.afterIndent)
  /\ (k = "ENDMARKER" => e.ind = 0 /\ ~e.afterIndent)

After(e, k) ==
  [nl |-> IF k = "NEWLINE" THEN TRUE ELSE IF k \in {"DEDENT", "ERROR_DEDENT", "INDENT"} THEN e.nl ELSE FALSE,
   ind |-> IF k = "INDENT" THEN e.ind + 1 ELSE IF k = "DEDENT" THEN e.ind - 1 ELSE e.ind,
   afterIndent |-> k = "INDENT",
   afterDedent |-> k \in {"DEDENT", "ERROR_DEDENT"},
   closing |-> e.closing \/ k = "ERRORTOKEN_NL",
   midline |-> k \in {"DEDENT", "ERROR_DEDENT"} /\ (~e.nl \/ e.midline) /\ ~e.closing]
=============================================================================
