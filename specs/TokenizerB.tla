----------------------------- MODULE TokenizerB -----------------------------
(***************************************************************************)
(* B-spec (design level) of the indentation / bracket / newline machine of *)
(* parso.python.tokenize.tokenize_lines, at LEXEME granularity: the input  *)
(* is a sequence of lexemes                                                *)
(*   W1 W2 (one / two blanks)  T (a name)  K (an always-break keyword)     *)
(*   O C (open / close bracket)  N (newline)  H (comment)                  *)
(*   B (backslash-newline)  E (a character that matches no token)          *)
(* appended one at a time by the environment, so TLC explores inputs of    *)
(* unbounded length (all that lead to the same tokenizer state are         *)
(* merged).  State = the tokenizer's own variables: indents, paren_level,  *)
(* new_line, additional_prefix (as lexemes), the pending whitespace, the   *)
(* column, "only whitespace on this physical line so far".                 *)
(* One branch per branch of the code: whitespace, backslash continuation,  *)
(* indentation processing at the first token of a line (INDENT / DEDENT /  *)
(* ERROR_DEDENT), error token, name, break keyword (resets the bracket     *)
(* level and may dedent in mid-line), brackets, newline (NEWLINE token or  *)
(* prefix), comment, end of input (pending DEDENTs + ENDMARKER).           *)
(*                                                                         *)
(* Checked by TLC:                                                         *)
(*   EnvOk          every emitted token is allowed by TokEnv in the state  *)
(*                  the monitor is in  (TokenizerB => TokEnv: the          *)
(*                  environment ParserB assumes is what the tokenizer      *)
(*                  design guarantees)                                     *)
(*   PrefixPure     only prefix-legal lexemes ever enter additional_prefix *)
(*   IndentsSorted, DepthMatches, NoLexemeLost (every lexeme ends up in    *)
(*                  exactly one token string or prefix)                    *)
(* Its behaviours (lexeme sequences with the predicted token stream) are   *)
(* rendered and compared with the real tokenizer (checks/C09.py).          *)
(***************************************************************************)
EXTENDS Naturals, Sequences, TLC, TokEnv, Json

TB == JsonDeserialize("tb.json")      \* maxcol, maxind, maxparen, maxaddp, hist, closeat
Lex == {"W1", "W2", "T", "K", "O", "C", "N", "H", "B", "E"}
Width(lx) == CASE lx = "W1" -> 1 [] lx = "W2" -> 2 [] lx = "T" -> 1 [] lx = "K" -> 3 [] lx = "O" -> 1 [] lx = "C" -> 1
               [] lx = "H" -> 2 [] lx = "E" -> 1 [] OTHER -> 0
Hist == TB.hist

VARIABLES indents, paren, newLine, addp, pend, col, onlyWs, last, env, envBad, owed, out, done
vars == <<indents, paren, newLine, addp, pend, col, onlyWs, last, env, envBad, owed, out, done>>

Init == /\ indents = <<0>> /\ paren = 0 /\ newLine = TRUE /\ addp = <<>> /\ pend = "" /\ col = 0 /\ onlyWs = TRUE
        /\ last = "" /\ env = EnvInit /\ envBad = FALSE /\ owed = 0 /\ out = <<>> /\ done = FALSE

Top(s) == s[Len(s)]
(* dedent_if_necessary(start): <<tokens, new indents>> *)
RECURSIVE Dedent(_, _)
Dedent(ind, start) ==
  IF start >= Top(ind) THEN << <<>>, ind >>
  ELSE IF start > ind[Len(ind) - 1] THEN << << <<"ERROR_DEDENT", "", start, <<>> >> >>, [ind EXCEPT ![Len(ind)] = start] >>
  ELSE LET r == Dedent(SubSeq(ind, 1, Len(ind) - 1), start)
       IN << << <<"DEDENT", "", start, <<>> >> >> \o r[1], r[2] >>

KindOf(tok) == IF tok[1] \in {"INDENT", "DEDENT", "ERROR_DEDENT", "NEWLINE", "ENDMARKER"} THEN tok[1]
               ELSE IF tok[2] = "K" THEN "BREAK" ELSE "OTHER"
(* run the TokEnv monitor over the emitted tokens: <<env', any token not allowed>> *)
RECURSIVE Monitor(_, _, _)
Monitor(e, toks, bad) ==
  IF toks = <<>> THEN <<e, bad>>
  ELSE LET k == KindOf(toks[1]) IN
       Monitor(After(e, k), Tail(toks), bad \/ ~Allows(e, k, TB.maxind))

PrefixOf == addp \o (IF pend = "" THEN <<>> ELSE <<pend>>)
PrefixLex(p) == Len(p)       \* number of lexemes a prefix accounts for

Emit(toks) ==
  /\ LET m == Monitor(env, toks, envBad) IN env' = m[1] /\ envBad' = m[2]
  /\ out' = IF Hist THEN out \o toks ELSE out

Valid(lx) ==
  /\ (last = "H" => lx = "N")                      \* a comment runs to the end of the line
  /\ (last \in {"W1", "W2"} => lx \notin {"W1", "W2"})   \* canonical whitespace
  /\ (last \in {"T", "K"} => lx \notin {"T", "K"})        \* two names would merge

Feed(lx) ==
  /\ ~done /\ Valid(lx) /\ last' = lx /\ done' = FALSE
  /\ IF lx \in {"W1", "W2"}
     THEN /\ pend' = lx /\ col' = col + Width(lx)
          /\ Emit(<<>>) /\ owed' = owed + 1
          /\ UNCHANGED <<indents, paren, newLine, addp, onlyWs>>
     ELSE IF lx = "B"
     THEN (* backslash continuation: goes to the prefix, no indentation processing *)
          /\ addp' = Append(PrefixOf, "B") /\ pend' = "" /\ col' = 0 /\ onlyWs' = TRUE
          /\ Emit(<<>>) /\ owed' = owed + 1
          /\ UNCHANGED <<indents, paren, newLine>>
     ELSE
       LET start == col
           pre == PrefixOf
           first == newLine /\ lx \notin {"N", "H"}                   \* first token of a logical line
           indTok == IF first /\ paren = 0 /\ start > Top(indents)
                     THEN << <<"INDENT", "", start, <<>> >> >> ELSE <<>>
           ind1 == IF indTok # <<>> THEN Append(indents, start) ELSE indents
           ded == IF first /\ paren = 0 THEN Dedent(ind1, start) ELSE << <<>>, ind1 >>
           nl1 == IF first THEN FALSE ELSE newLine
           (* a break keyword inside brackets resets the bracket level and, on a fresh physical line, dedents *)
           kded == IF lx = "K" /\ paren > 0 /\ onlyWs THEN Dedent(ded[2], start) ELSE << <<>>, ded[2] >>
           paren1 == IF lx = "K" THEN 0
                     ELSE IF lx = "O" THEN paren + 1
                     ELSE IF lx = "C" /\ paren > 0 THEN paren - 1 ELSE paren
           layout == indTok \o ded[1] \o kded[1]
       IN
       /\ indents' = kded[2] /\ paren' = paren1
       /\ IF lx = "N"
          THEN /\ IF ~nl1 /\ paren = 0
                  THEN /\ Emit(layout \o << <<"NEWLINE", "N", start, pre>> >>) /\ addp' = <<>>
                       /\ owed' = owed - PrefixLex(pre)
                  ELSE /\ Emit(layout) /\ addp' = Append(pre, "N") /\ owed' = owed + 1
               /\ newLine' = TRUE /\ pend' = "" /\ col' = 0 /\ onlyWs' = TRUE
          ELSE IF lx = "H"
          THEN /\ Emit(layout) /\ addp' = Append(pre, "H") /\ owed' = owed + 1
               /\ newLine' = nl1 /\ pend' = "" /\ col' = col + 2 /\ onlyWs' = FALSE
          ELSE /\ Emit(layout \o << <<IF lx = "E" THEN "ERRORTOKEN" ELSE IF lx \in {"T", "K"} THEN "NAME" ELSE "OP",
                                     lx, start, pre>> >>)
               /\ addp' = <<>> /\ owed' = owed - PrefixLex(pre)
               /\ newLine' = FALSE /\ pend' = "" /\ col' = col + Width(lx) /\ onlyWs' = FALSE

Close ==
  /\ ~done /\ done' = TRUE /\ last' = "END"
  /\ LET pre == PrefixOf
         deds == [i \in 1..(Len(indents) - 1) |-> <<"DEDENT", "", col, <<>> >>]
     IN /\ Emit(deds \o << <<"ENDMARKER", "", col, pre>> >>)
        /\ owed' = owed - PrefixLex(pre)
  /\ indents' = <<0>> /\ addp' = <<>> /\ pend' = ""
  /\ (Hist => PrintT(<<"LEXRUN", out'>>))
  /\ UNCHANGED <<paren, newLine, col, onlyWs>>

Closing == TB.closeat > 0 /\ TLCGet("level") >= TB.closeat
Next == (~Closing /\ \E lx \in Lex : Feed(lx)) \/ Close
Spec == Init /\ [][Next]_vars

Bound == col <= TB.maxcol /\ Len(indents) <= TB.maxind + 1 /\ paren <= TB.maxparen /\ Len(addp) <= TB.maxaddp

(* ------------------------------ properties ------------------------------ *)
EnvOk == ~envBad                                                      \* TokenizerB => TokEnv
PrefixPure == \A i \in 1..Len(addp) : addp[i] \in {"W1", "W2", "H", "B", "N"}
IndentsSorted == \A i \in 1..(Len(indents) - 1) : indents[i] < indents[i + 1]
DepthMatches == done \/ env.ind = Len(indents) - 1
(* owed = lexemes fed but not yet placed in a token's string or prefix: exactly the pending prefix *)
NoLexemeLost == owed = (IF done THEN 0 ELSE Len(PrefixOf))
EndsBalanced == done => env.ind = 0
=============================================================================
