----------------------------- MODULE Relational -----------------------------
(***************************************************************************)
(* Relational contracts between parso and CPython as reference             *)
(* implementation, evaluated by TLC on recorded pairs (C10, C12, C14).     *)
(* Texts are interned to integers per trace by the recorder; every         *)
(* projection and comparison is written here.                              *)
(*                                                                         *)
(* C10 TokenAgreement: Significant(cpython tokens) = Merged(parso tokens)  *)
(*   - CPython's COMMENT / NL / ENCODING tokens and its implicit empty     *)
(*     NEWLINE at end of file are not significant (parso keeps that text   *)
(*     in prefixes: since parso's tokens tile the input (C09) and all      *)
(*     significant tokens coincide, the remaining text IS in prefixes);    *)
(*   - an f-string is ONE string located by its start (CPython < 3.12: a   *)
(*     STRING token; >= 3.12 and parso: FSTRING_START ... FSTRING_END);    *)
(*   - INDENT is compared at CPython's END (its INDENT carries the         *)
(*     whitespace; parso's is zero-width at the first token), DEDENT at    *)
(*     its start - except the DEDENTs of the closing run at end of file -  *)
(*     and ENDMARKER by type only; every other token by type, exact text   *)
(*     and (line, column).                                                 *)
(* C12 NoFalseErrors (a) accepted by CPython V and by 3.8 => no error node *)
(*     and no issue; (b) no error node => no issue.                        *)
(* C14 Facts: the fact sets extracted from parso's helpers and from        *)
(*     CPython's ast are equal, kind by kind.                              *)
(***************************************************************************)
EXTENDS Naturals, Sequences, FiniteSets, TLC, Json

Insignificant(t, empty) == t.t \in {"COMMENT", "NL", "ENCODING"} \/ (t.t = "NEWLINE" /\ t.s = empty)
ClosingFrom(toks, i, empty) == \A j \in (i + 1)..Len(toks) : toks[j].t \in {"DEDENT", "ENDMARKER"} \/ Insignificant(toks[j], empty)

Project(toks, cpy, empty) ==
  LET F[k \in 0..Len(toks)] ==       \* <<output, f-string depth>>
        IF k = 0 THEN << <<>>, 0 >>
        ELSE LET p == F[k - 1]
                 t == toks[k]
                 d == p[2]
             IN IF t.t = "FSTRING_START" THEN << IF d = 0 THEN Append(p[1], <<"FSTR", 0, t.l, t.c>>) ELSE p[1], d + 1 >>
                ELSE IF t.t = "FSTRING_END" THEN << p[1], IF d > 0 THEN d - 1 ELSE 0 >>
                ELSE IF d > 0 THEN p
                ELSE IF Insignificant(t, empty) /\ cpy THEN p
                ELSE IF t.t = "STRING" /\ t.f THEN << Append(p[1], <<"FSTR", 0, t.l, t.c>>), d >>
                ELSE IF t.t = "INDENT" THEN << Append(p[1], IF cpy THEN <<"INDENT", 0, t.el, t.ec>> ELSE <<"INDENT", 0, t.l, t.c>>), d >>
                ELSE IF t.t = "DEDENT" THEN
                     << Append(p[1], IF ClosingFrom(toks, k, empty) THEN <<"DEDENT", 0, 0, 0>> ELSE <<"DEDENT", 0, t.l, t.c>>), d >>
                ELSE IF t.t = "ENDMARKER" THEN << Append(p[1], <<"ENDMARKER", 0, 0, 0>>), d >>
                ELSE IF t.t \in {"ASYNC", "AWAIT"} THEN << Append(p[1], <<"NAME", t.s, t.l, t.c>>), d >>  \* CPython 3.5/3.6
                ELSE << Append(p[1], <<t.t, t.s, t.l, t.c>>), d >>
  IN F[Len(toks)][1]

TokenVerdict(tr) ==
  LET a == Project(tr.cpy, TRUE, tr.empty)
      b == Project(tr.par, FALSE, tr.empty)
      n == IF Len(a) < Len(b) THEN Len(a) ELSE Len(b)
      diff == {i \in 1..n : a[i] # b[i]}
      fstr == \E i \in 1..Len(tr.cpy) : tr.cpy[i].t = "FSTRING_START"
  IN IF tr.praised THEN "ParsoTokenizerNeverFails"
     ELSE IF a = b THEN "ok"
     ELSE IF tr.v312 /\ fstr THEN "SignificantTokensAgree:fstring-3.12"
     ELSE IF tr.ff THEN "SignificantTokensAgree:formfeed-in-indentation"
     ELSE IF tr.bs THEN "SignificantTokensAgree:backslash-continuation-at-line-start"
     ELSE IF tr.bk THEN "SignificantTokensAgree:break-keyword-inside-brackets"
     ELSE "SignificantTokensAgree"

SyntaxVerdict(tr) ==
  IF tr.raised THEN "ListingNeverRaises"
  ELSE IF tr.v38ok /\ tr.haserr THEN "CommonSyntaxParsesWithoutErrorNodes"
  ELSE IF ~tr.haserr /\ tr.nissues > 0 THEN "NoIssueWithoutErrorNode"
  ELSE "ok"

FactsVerdict(tr) ==
  LET kinds == DOMAIN tr.pfacts
      bad == {k \in kinds : {tr.pfacts[k][i] : i \in 1..Len(tr.pfacts[k])} # {tr.afacts[k][i] : i \in 1..Len(tr.afacts[k])}}
  IN IF tr.raised THEN "HelpersNeverRaise"
     ELSE IF bad # {} THEN "FactsAgree:" \o (CHOOSE k \in bad : TRUE)
     (* the helpers are pure queries: the same extraction after asking every other question gives the same facts *)
     ELSE IF ~tr.stable THEN "FactsStableAcrossQueries"
     ELSE "ok"

Batch == JsonDeserialize("batch.json")
Traces == Batch.traces
NT == Len(Traces)
VARIABLES tid, nacc, nrej
vars == <<tid, nacc, nrej>>
Init == tid = 1 /\ nacc = 0 /\ nrej = 0
Judge == /\ tid <= NT
         /\ LET tr == Traces[tid]
                v == CASE tr.kind = "tokens" -> TokenVerdict(tr)
                       [] tr.kind = "syntax" -> SyntaxVerdict(tr)
                       [] OTHER -> FactsVerdict(tr)
            IN IF v = "ok" THEN nacc' = nacc + 1 /\ nrej' = nrej
               ELSE PrintT(<<"REJECT", tr.id, tr.kind, v, 0>>) /\ nrej' = nrej + 1 /\ nacc' = nacc
         /\ tid' = tid + 1
Finish == /\ tid = NT + 1 /\ PrintT(<<"SUMMARY", nacc, nrej>>) /\ tid' = NT + 2 /\ UNCHANGED <<nacc, nrej>>
Next == Judge \/ Finish
Spec == Init /\ [][Next]_vars
=============================================================================
