----------------------------- MODULE EditHistory -----------------------------
(***************************************************************************)
(* Generator (environment side) for C04: histories of edits to a document, *)
(* mirroring and extending test/fuzz_diff_parser.py.  A document is a      *)
(* sequence of <<line id, indent level>>; line ids index a pool of         *)
(* concrete lines chosen to cover the syntactic classes that matter to the *)
(* diff parser's copy logic (harness/diffsim.py POOL); Blocks are canned   *)
(* multi-line constructs.  TLC enumerates (or simulates) the histories;    *)
(* the harness renders every document and feeds the sequence to            *)
(* grammar.parse(text_i, diff_cache=True, path=p).                         *)
(***************************************************************************)
EXTENDS Naturals, Sequences, FiniteSets, TLC, Json

EH == JsonDeserialize("eh.json")      \* npool, blocks, bases, maxlen, maxsteps, maxindent, ops
NPool == EH.npool
Blocks == EH.blocks                   \* sequence of documents
Bases == EH.bases                     \* sequence of documents to start from
MaxLen == EH.maxlen
MaxSteps == EH.maxsteps
MaxIndent == EH.maxindent
Ops == {EH.ops[i] : i \in 1..Len(EH.ops)}
Lines == EH.lines                     \* the line ids the edit operations may introduce

VARIABLES doc, nl, bom, docs, step, done
vars == <<doc, nl, bom, docs, step, done>>

Snap == [doc |-> doc, nl |-> nl, bom |-> bom]
Init == /\ \E b \in 1..Len(Bases) : doc = Bases[b]
        /\ nl = TRUE /\ bom = FALSE /\ docs = <<>> /\ step = 0 /\ done = FALSE

InsertAt(d, i, xs) == SubSeq(d, 1, i - 1) \o xs \o SubSeq(d, i, Len(d))
Shift(xs, k) == [j \in 1..Len(xs) |-> <<xs[j][1], xs[j][2] + k>>]

Commit(d) == /\ doc' = d /\ Len(d) <= MaxLen
             /\ docs' = Append(docs, Snap) /\ step' = step + 1

InsertLine == /\ "insert" \in Ops
              /\ \E i \in 1..(Len(doc) + 1), l \in {Lines[q] : q \in 1..Len(Lines)}, ind \in 0..MaxIndent :
                   Commit(InsertAt(doc, i, << <<l, ind>> >>))
              /\ UNCHANGED <<nl, bom>>
DeleteLines == /\ "delete" \in Ops
               /\ \E i \in 1..Len(doc), n \in 1..3 :
                    /\ i + n - 1 <= Len(doc)
                    /\ Commit(SubSeq(doc, 1, i - 1) \o SubSeq(doc, i + n, Len(doc)))
               /\ UNCHANGED <<nl, bom>>
ReplaceLine == /\ "replace" \in Ops
               /\ \E i \in 1..Len(doc), l \in {Lines[q] : q \in 1..Len(Lines)}, ind \in 0..MaxIndent :
                    /\ <<l, ind>> # doc[i]
                    /\ Commit([doc EXCEPT ![i] = <<l, ind>>])
               /\ UNCHANGED <<nl, bom>>
InsertBlock == /\ "block" \in Ops
               /\ \E i \in 1..(Len(doc) + 1), b \in 1..Len(Blocks), ind \in 0..1 :
                    Commit(InsertAt(doc, i, Shift(Blocks[b], ind)))
               /\ UNCHANGED <<nl, bom>>
IndentRange == /\ "indent" \in Ops
               /\ \E i \in 1..Len(doc), n \in 1..4, up \in BOOLEAN :
                    /\ i + n - 1 <= Len(doc)
                    /\ \A j \in i..(i + n - 1) : IF up THEN doc[j][2] < MaxIndent + 1 ELSE doc[j][2] > 0
                    /\ Commit([j \in 1..Len(doc) |->
                                 IF j >= i /\ j < i + n
                                 THEN <<doc[j][1], IF up THEN doc[j][2] + 1 ELSE doc[j][2] - 1>> ELSE doc[j]])
               /\ UNCHANGED <<nl, bom>>
Duplicate == /\ "duplicate" \in Ops
             /\ \E i \in 1..Len(doc), n \in 1..3, k \in 1..(Len(doc) + 1) :
                  /\ i + n - 1 <= Len(doc)
                  /\ Commit(InsertAt(doc, k, SubSeq(doc, i, i + n - 1)))
             /\ UNCHANGED <<nl, bom>>
Swap == /\ "swap" \in Ops
        /\ \E i \in 1..Len(doc), j \in 1..Len(doc) :
             /\ i < j /\ doc[i] # doc[j]
             /\ Commit([doc EXCEPT ![i] = doc[j], ![j] = doc[i]])
        /\ UNCHANGED <<nl, bom>>
Undo == /\ "undo" \in Ops /\ Len(docs) >= 2
        /\ \E k \in 1..(Len(docs) - 1) :
             /\ docs[k].doc # doc
             /\ doc' = docs[k].doc /\ nl' = docs[k].nl /\ bom' = docs[k].bom
             /\ docs' = Append(docs, Snap) /\ step' = step + 1
ToggleNl == /\ "togglenl" \in Ops /\ doc # <<>> /\ nl' = ~nl /\ Commit(doc) /\ UNCHANGED bom
ToggleBom == /\ "togglebom" \in Ops /\ bom' = ~bom /\ Commit(doc) /\ UNCHANGED nl

Edit == InsertLine \/ DeleteLines \/ ReplaceLine \/ InsertBlock \/ IndentRange \/ Duplicate \/ Swap \/ Undo
        \/ ToggleNl \/ ToggleBom
(* a complete history is printed by its own final action (an invariant would be evaluated - and print -  *)
(* for every candidate successor in simulation mode)                                                    *)
Finish == /\ step = MaxSteps /\ ~done /\ done' = TRUE
          /\ PrintT(<<"EDITS", Append(docs, Snap)>>)
          /\ UNCHANGED <<doc, nl, bom, docs, step>>
Next == (step < MaxSteps /\ Edit /\ UNCHANGED done) \/ Finish
Spec == Init /\ [][Next]_vars
=============================================================================
