------------------------------- MODULE StrLits -------------------------------
(***************************************************************************)
(* Generator: string-literal shapes.  prefix x quote x a body of up to     *)
(* MaxBody pieces x closed or not.  Pieces are the characters that matter  *)
(* to the string branches of the tokenizer: an ordinary character, the     *)
(* other quote, the own quote escaped, a backslash-newline continuation, a *)
(* raw newline, a brace pair, a doubled own quote.  checks render them as   *)
(* `x = <literal>` (harness/inputs.py).                                     *)
(***************************************************************************)
EXTENDS Naturals, Sequences, TLC
CONSTANTS MaxBody
Prefixes == {"", "r", "b", "u", "f", "rb", "Rb", "bR", "fr", "F", "B", "U"}
Quotes == {"sq", "dq", "tsq", "tdq"}
Pieces == {"char", "other", "escown", "contin", "newline", "braces", "ownown", "space", "backslash"}
VARIABLES prefix, quote, body, closed
Init == prefix \in Prefixes /\ quote \in Quotes /\ body = <<>> /\ closed \in BOOLEAN
Next == /\ Len(body) < MaxBody
        /\ \E p \in Pieces : body' = Append(body, p)
        /\ UNCHANGED <<prefix, quote, closed>>
Spec == Init /\ [][Next]_<<prefix, quote, body, closed>>
=============================================================================
