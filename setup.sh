#!/bin/bash
# Offline setup: only checks that the tools the checks need are present. Nothing persistent is built.
set -e
cd "$(dirname "$0")"
command -v java >/dev/null
test -f /opt/veriftools/tla/tla2tools.jar
test -f /opt/veriftools/tla/CommunityModules-deps.jar
/venv/bin/python -c "import sys; sys.path.insert(0,'/repo'); import parso; print('parso', parso.__version__, parso.__file__)"
mkdir -p build evidence
echo setup ok
